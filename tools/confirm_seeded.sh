#!/bin/bash
# usage: tools/confirm_seeded.sh <ID> <n>     (reads /tmp/seeded-out/<ID>/patch<n>.diff, demo<n>/, notes<n>.md)
# Confirms in a scratch worktree that the seeded change (1) compiles, (2) passes the existing suite,
# (3) its demonstration fails with the change and passes without; then stores it under /verif/seeded/<ID>-<n>/.
set -u
ID=$1; N=$2
SRC=/tmp/seeded-out/$ID
W=/tmp/hv-confirm
export CARGO_NET_OFFLINE=true RUSTUP_TOOLCHAIN=stable-x86_64-unknown-linux-gnu CARGO_TARGET_DIR=$W/target
mkdir -p $W
[ -d $W/repo ] || git -C /repo worktree add -q --detach $W/repo HEAD || exit 2
cd $W/repo
git checkout -q --detach $(git -C /repo rev-parse HEAD); git checkout -- .; git clean -fdq
BASE=$(git rev-parse --short HEAD)
install_demo() {
  # diffs first (new test modules, `mod` lines in binary crates), then the plain files that are
  # not in the tree yet; python scripts stay where they are and are run from there
  for d in $(ls $SRC/demo$N/*.diff 2>/dev/null); do git apply "$d" 2>/dev/null || echo "demo diff $d does not apply"; done
  ( cd $SRC/demo$N && find . -type f ! -name '*.diff' ! -name '*.py' | while read f; do
      if [ ! -e "$W/repo/$f" ]; then mkdir -p "$W/repo/$(dirname $f)"; cp "$f" "$W/repo/$f"; fi; done )
}
# which test targets does the demo add?
DEMO_ARGS=""
for f in $(cd $SRC/demo$N && find . -path '*/tests/*.rs' -type f); do
  crate=$(echo $f | cut -d/ -f2); t=$(basename $f .rs); DEMO_ARGS="$DEMO_ARGS|-p $crate --test $t"
done
for f in $(cd $SRC/demo$N && find . -path '*/src/*.rs' -type f); do
  crate=$(echo $f | cut -d/ -f2); t=$(basename $f .rs); DEMO_ARGS="$DEMO_ARGS|-p $crate $t"
done
# demos shipped only as a diff that appends a #[cfg(test)] module: run that module's tests
for d in $(ls $SRC/demo$N/*.diff 2>/dev/null); do
  crate=$(grep -m1 '^+++ b/' $d | sed -E 's#^\+\+\+ b/([^/]+)/.*#\1#'); m=$(grep -m1 -oE '^\+mod seeded_[A-Za-z0-9_]+' $d | sed 's/^+mod //')
  if [ -n "$m" ] && ! echo "$DEMO_ARGS" | grep -q "$m"; then DEMO_ARGS="$DEMO_ARGS|-p $crate $m"; fi
done
run_demo() { # returns 0 if all demo targets pass
  local ok=0
  for py in $(cd $SRC/demo$N && find . -name '*.py' -type f); do
    cargo build --offline -p harper-ls > $W/demo-build.log 2>&1
    ( cd $W/repo && HARPER_LS=$W/target/debug/harper-ls PATH=$W/target/debug:$PATH python3 $SRC/demo$N/$py $W/target/debug/harper-ls > $W/demo.log 2>&1 ) || ok=1
  done
  IFS='|' read -ra A <<< "$DEMO_ARGS"
  for a in "${A[@]}"; do [ -z "$a" ] && continue
    cargo test --offline $a > $W/demo.log 2>&1 || ok=1
    grep -q "test result: FAILED\|error\[" $W/demo.log && ok=1
  done
  return $ok
}
install_demo
if run_demo; then DEMO_CLEAN=pass; else DEMO_CLEAN=fail; fi
git checkout -- .; git clean -fdq
if ! git apply $SRC/patch$N.diff; then echo "$ID-$N: patch does not apply to $BASE"; exit 1; fi
cargo test --workspace --no-fail-fast --offline > $W/suite.log 2>&1
if grep -q "test result: FAILED\|^error" $W/suite.log; then SUITE=fail; else SUITE=pass; fi
PASSED=$(grep "^test result" $W/suite.log | sed -E 's/.*ok\. ([0-9]+) passed.*/\1/' | paste -sd+ | bc)
install_demo
if run_demo; then DEMO_PATCHED=pass; else DEMO_PATCHED=fail; fi
git checkout -- .; git clean -fdq
echo "$ID-$N: base=$BASE suite_with_patch=$SUITE ($PASSED passed) demo_clean=$DEMO_CLEAN demo_patched=$DEMO_PATCHED"
if [ $SUITE = pass ] && [ $DEMO_CLEAN = pass ] && [ $DEMO_PATCHED = fail ]; then
  D=/verif/seeded/$ID-$N; rm -rf $D; mkdir -p $D
  cp $SRC/patch$N.diff $D/patch.diff; cp -r $SRC/demo$N $D/demo; cp $SRC/notes$N.md $D/notes.md 2>/dev/null
  python3 - "$ID" "$N" "$BASE" "$PASSED" "$DEMO_ARGS" <<'PY'
import json,sys
ID,N,BASE,PASSED,DEMO=sys.argv[1:6]
notes=open(f'/tmp/seeded-out/{ID}/notes{N}.md').read() if __import__('os').path.exists(f'/tmp/seeded-out/{ID}/notes{N}.md') else ''
json.dump({"property":ID[:3],"round":(2 if ID.endswith("r2") else 1),"variant":int(N),"base_commit":BASE,"origin":"independent sub-agent given only the property text and a scratch worktree",
 "confirmed":{"compiles":True,"existing_suite_passes_with_patch":True,"tests_passed_with_patch":int(PASSED),"demo_passes_without_patch":True,"demo_fails_with_patch":True,
 "how":"tools/confirm_seeded.sh in a scratch worktree (/tmp/hv-confirm): cargo test --workspace with the patch; demo targets: "+DEMO},
 "needs_to_manifest": notes[:1500]}, open(f'/verif/seeded/{ID}-{N}/meta.json','w'), indent=1)
PY
  echo "  kept as /verif/seeded/$ID-$N"
fi
