#!/usr/bin/env python3
"""Delta-debug the `text` field of a replay file: keep shrinking while `hv replay` still reports a violation
whose output contains the given needle. usage: ddmin.py <replay.json> <needle> [field]"""
import json, subprocess, sys, os
src = json.load(open(sys.argv[1])); needle = sys.argv[2]; field = sys.argv[3] if len(sys.argv) > 3 else 'text'
case = src['case']
def fails(text):
    c = dict(case); c[field] = text
    p = '/tmp/ddmin-cand.json'
    json.dump({'property': src['property'], 'check': src['check'], 'case': c}, open(p, 'w'))
    try:
        r = subprocess.run(['/verif/target/hv/release/hv', 'replay-child', p], env=dict(os.environ, HV_CHILD='1'), timeout=60, capture_output=True, text=True)
        return r.returncode != 0 and needle in (r.stdout + r.stderr)
    except subprocess.TimeoutExpired:
        return needle == 'TIMEOUT'
text = case[field]
assert fails(text), "original does not fail with that needle"
n = 2
while len(text) >= 2:
    chunk = max(1, len(text) // n); reduced = False; i = 0
    while i < len(text):
        cand = text[:i] + text[i+chunk:]
        if cand and fails(cand):
            text = cand; reduced = True; n = max(n - 1, 2)
        else:
            i += chunk
    if not reduced:
        if chunk == 1: break
        n = min(n * 2, len(text))
print('MIN', json.dumps(text))
c = dict(case); c[field] = text
out = sys.argv[1].replace('.json', '.min.json')
json.dump({'property': src['property'], 'check': src['check'], 'case': c}, open(out, 'w'))
print('written', out)
