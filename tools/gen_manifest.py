#!/usr/bin/env python3
"""Regenerates /verif/MANIFEST.json from the table below (run after adding a check)."""
import json
CHECKS = {
"C01": ("exploration", "Generated-input search: documents from grammar-based generators for all 28 language ids x server wrappers x rule configurations x dialects (30% cut at a random character, tails '', ' ', '\\n'), the prefix closure of harvested rule-trigger sentences per front-end, and CPU-time scaling families (repetition u^n and nesting open^d body close^d); oracle = returns normally: no panic (catch_unwind), no abort and no hang (supervised child process, confirmation alone in a fresh process), CPU-time growth per doubling bounded. Refutes, never proves, termination.",
        "Cases run on 2 MiB-stack threads inside a supervised child. Two open known findings are excluded by exact predicates (Typst nesting depth > 256; tree-sitter-dart stalling on its own under a 3 s parser timeout).",
        "property-based testing (proptest) + exhaustive prefix enumeration + scaling measurement; oracle: returns normally"),
"C02": ("exploration", "Validity predicate over token streams (bounds, order, disjointness, zero-width kinds, plain-English tiling, lexical shape of Word/Space/Number/Punctuation, quote twins), written from the statement with its own punctuation/currency/number tables, evaluated on Parser::parse and Document::get_tokens for generated documents of every front-end (incl. CollapseIdentifiers / IsolateEnglish wrappers) and on the prefix closure of harvested sentences.",
        "Oracle tables are independent of harper's lexer. Two open known findings tolerated by signature (et al. word with a space; Markdown wikilink token order).",
        "property-based testing (proptest) with a validity-predicate oracle"),
"C03": ("exploration", "Edit primitive: exhaustive small scope + random (text, span, suggestion) triples against a reference splice; real lints: every lint of generated documents of every front-end/config/dialect must lie inside the text and each of its suggestions must equal the reference splice.",
        "Reference splice is slice concatenation.",
        "property-based testing (proptest) + exhaustive small-scope enumeration; reference-model oracle"),
"C04": ("exploration", "Files rendered from an abstract specification together with their ground truth (prose words and their char offsets; non-prose regions filled from a disjoint sentinel vocabulary incl. multi-byte text) for all 22 comment languages (every comment style, ignore markers, indentation, CRLF, comments holding a fenced code example with empty lines inside it) and for Markdown, HTML, Literate Haskell, git-commit and Typst; oracle: the multiset of (offset, text) of Word tokens equals the prose-word list exactly and no lintable token lies in a non-prose region; each file is checked bare, with the server's identifier-collapsing wrapper, and with the front-end chosen from the file name (the harper-cli path).",
        "Per-language code templates are syntactically valid by construction; Typst string literals are treated as prose except in the positional arguments harper-typst skips (lenient reading). One open known finding (Ruby =begin/=end).",
        "property-based testing (proptest) with a constructive ground-truth oracle"),
"C05": ("exploration", "Stateful: op sequences (SetConfig | Lint(doc, language) | LintEdited: a clause, a same-length edit of it 0-300 characters in, the clause again) on one long-lived LintGroup over a pool in which clause characters recur at other offsets / languages / configs; after every Lint the result must equal that of a freshly built linter. Plus 8 threads vs sequential, a linter moved across threads, two fresh processes byte-identical, LRU-eviction run (thorough); dictionary_change_detection: merged dictionaries that compare equal (the test on which harper-ls keeps its linter) must lint alike, and a thread that parsed with one dictionary and then with another of the same size reports what a fresh thread reports.",
        "Differential against LintGroup::new_curated(..).with_lint_config(current) on the same Document.",
        "model-based / differential property testing over operation histories (proptest vec(op) + interpreter)"),
"C06": ("exploration", "Every entry of the curated dictionary x 4 dialects enumerated alone (re-cased forms too), random entries inside sentence frames; conversely generated non-words must get exactly one Spelling lint with the exact span and only dictionary suggestions of the active dialect; every dialect-tagged entry alone vs inside noun-phrase frames (verdict independent of neighbours, exhaustive); user words merged with the curated dictionary are never reported in their listed capitalisation. Ground truth = the dictionary's own word list.",
        "Open known finding: 149 multi-token dictionary entries (exact list in known_findings.jsonl).",
        "exhaustive enumeration of the dictionary + property-based testing (proptest)"),
"C07": ("fault_enumeration", "(a) Stateful LSP histories against the real harper-ls binary in a sandbox (add-to-user/file-dictionary with words taken from published diagnostics, change, restart) with a set model: added words are accepted in every subsequently checked text they apply to, other diagnostics unchanged, file dictionaries do not leak, the dictionary file (lines as a set) equals the model, restarts reproduce. (c) Crash points: each save is recorded under strace; every prefix of the globally ordered file mutations and every short write is replayed in a file-system model (validated to reproduce the real final state) and must reload to the previous words or those plus the new word. (b) import/lint/persist histories on the wasm-facing Linter with a set model. (f) words added through harper-ls are not reported by harper-cli lint on the same path (plain, symlinked directory, symlinked file; names with spaces / non-ASCII / %). (d) a write error part-way through a save (RLIMIT_FSIZE) must leave every earlier word on disk. (e) large pre-existing dictionaries of multi-byte Latin words (LF/CRLF, regular file or relative symbolic link): nothing listed is reported after load, add and restart; the file holds exactly old words + new word; a link stays a link.",
        "Process death only (no power failure): a crash leaves a prefix of the recorded mutation sequence. Open known finding: a case variant of an earlier word replaces it (excluded by construction, exercised in a sub-run).",
        "model-based property testing over LSP and harper.js histories (proptest) + trace-and-replay crash-state enumeration (strace) + injected write fault"),
"C08": ("exploration", "Two racing sub-checks (code-action requests sent into an edit: every answer must be a quick fix of the text before or of the text after it; on Rust files the harness times the dictionary reload under the document lock and aims the requests at it). Generated multi-line documents (astral, combining, tabs, LF/CRLF, with/without trailing newline) opened in the real harper-ls under 9 language ids; for every diagnostic a codeAction request with its own range and at every char position inside it; oracle = independent LSP position arithmetic: diagnostic range == reference range of the embedded lint, every inside position returns that lint's fixes, each TextEdit applied like a client == Suggestion::apply on the char span; published set == in-process lints for plain/Markdown/HTML/Typst.",
        "Lone CR line ends are outside the property's domain and are not generated.",
        "property-based testing (proptest) against the real server; reference-model oracle"),
"C09": ("exploration", "A publication that never arrives is not a timeout: once the server is demonstrably idle its last published diagnostics are compared with the expected ones. Stateful histories of batches of LSP messages against the real harper-ls; the harness owns the schedule by choosing the order in which it answers the handlers' workspace/configuration requests (= completion order of the in-flight handlers). After every batch the last publication of every document is compared with what a second, trivially sequential harper-ls process publishes for the newest text under the current settings and dictionaries (closed/deleted: empty). Histories include deletions of files, of directories (with/without trailing slash) and of sibling paths, user-dictionary file edits, and configuration changes whose notification arrives after an edit has already pulled the new settings. Four designed-in violations are excluded from the must-hold sub-space by construction and exercised in labelled sub-runs.",
        "The harness controls handler completion order, not the tokio worker interleaving between two awaits inside the server (sampled by repetition only).",
        "model-based / differential property testing over scheduled LSP histories (proptest vec(batch) + interpreter)"),
"C10": ("exploration", "Files created and left behind must be the configured files themselves (scratch files of a failed save included; a user-dictionary setting may name a directory). Invariant over strace -f syscall histories of generated harper-ls sessions (every notification and command except HarperOpen, incl. dictionary saves and the statistics write at shutdown; documents with non-local URIs and with absolute paths of 150-400 bytes; a user dictionary that is a relative symbolic link; dictionary paths changed silently by the client, with a state check that every added word is in the dictionary configured when the server last pulled its settings; one TCP-mode session and one TCP-mode start with port 4000 in use) and of a worker process that pushes generated documents through all front-ends, the harper.js API and statistics export/import: no socket/connect/send/bind/listen beyond the loopback listener, no resolver/TLS files, no exec, and writes only to the configured dictionary and statistics paths. The dependency-set clause is covered by a static cargo-metadata scan reported as an auxiliary.",
        "strace sees every syscall of the process tree; the dependency scan is a deny-list, not generated-input search.",
        "property-based testing (proptest) of sessions under a syscall monitor (strace); invariant over the syscall history"),
"C11": ("exploration", "Additivity of rule switches as a metamorphic relation (lints(S) = lints(A)+lints(B), sparse configurations (others absent / null) = dense ones (others false), full singleton decomposition, switching one rule off removes exactly its lints, all-off = nothing), overlay algebra against a map model (fill_with_curated, merge_from, clear, JSON round trip, unknown keys), a stateful check of the whole configuration API on one long-lived linter (map model; lints = fresh linter with the model's switches), the harper.js config path (also after further calls on the same Linter: word imports, checks in either language, state reads) and the harper-ls settings path (published diagnostics and the lints behind its code actions) against the in-process model; configurations range from a few entries to near-complete settings dumps with unknown names.",
        "Rules are the distinct configuration keys (iter_keys de-duplicated).",
        "metamorphic + model-based property testing (proptest)"),
"C12": ("exploration", "Metamorphic relation on generated pairs (P, D): lints(P+D) == lints(P) ++ shift(lints(D), |P|) as sorted multisets over all lint fields, all rules on, plain English; families: independent texts, shared words, abbreviations ending P, ordinals, special openers, blank runs, indented first lines.",
        "P is quote-free, ends in a terminator and a paragraph break, as the statement requires.",
        "metamorphic property testing (proptest)"),
"C13": ("exploration", "All ordered lists of <=3 (thorough 4) spans over 0..=5 exhaustively, random larger lists, and real lint lists of generated documents; oracle = sub-multiset, pairwise conflict-free, every dropped lint starts inside a kept one; on documents additionally back-to-front application equals a reference that splices in original coordinates; the real harper-cli binary on generated files with 0-2 --only-lint-with rules must print exactly a conflict-free selection.",
        "Validity predicate does not prescribe which of two overlapping lints is kept.",
        "property-based testing (proptest) + exhaustive small-scope enumeration; validity-predicate oracle"),
"C14": ("exploration", "Documents with repeated problems in equal/different neighbourhoods (also next to quotes); ignore a random subset; filter on the same text, after a JSON round trip of the ignore list, and after prepending/appending paragraphs; oracle uses an independent lint identity (fields + texts of tokens within the span and 2 chars around). The same problem in two texts differing right next to it (document start, punctuation, language) may only be hidden when the identity is equal. Through the real harper-ls: ignore one diagnostic, edit elsewhere (new identifiers, comments, prepended lines), differential against a server that ignored nothing. Through the harper.js Linter: other calls (same text in the other language, other texts, word imports) between showing a lint and ignoring it; reference = a fresh Linter with the same words.",
        "Only lints 3+ chars away from the edit boundary are judged after an edit.",
        "property-based testing (proptest); round-trip + metamorphic oracle with an independent identity relation"),
"C15": ("exploration", "The fuzzy search of a merged dictionary offers exactly the (word, distance) pairs its children offer, and under a cap of 1-3 never displaces the closest word nor offers anything beyond the cap-th closest (char-slice and _str entry points). Curated FST / mutable / merged back-ends must answer membership, exact membership, metadata, canonical spelling and *_str twins identically; fuzzy search on every dictionary of <=2 (thorough 3) short words over {a,b,B,'} x every query <=3 x bounds x caps exhaustively, random dictionaries and the curated dictionary against brute-force Levenshtein; dictionaries of 40-90-letter words; constructed dictionaries with typographic apostrophes in the stored words: mutable, FST built from it and merged wrappers agree; merged = union (first child wins, an unrestricted entry for the very spelling lifts a dialect restriction).",
        "Small dictionaries are built the way callers build them (MutableDictionary, then FstDictionary::from).",
        "differential + reference-model property testing (proptest) + exhaustive small-scope enumeration"),
"C16": ("exploration", "Stateful call sequences on harper_wasm::Linter (native rlib): lint / apply_suggestion / ignore_lint / import_words / export-clear-import / rebuild from exports / set config, switching a rule that fires on a text between two lints of it, both languages, all dialects; intrinsic invariants (spans, disjointness, problem text, JSON round trips), reference splice, and a differential against an in-process model with the C14 identity for ignores.",
        "JsValue-typed methods cannot run natively; their JSON twins are used.",
        "model-based property testing over call histories (proptest vec(op) + interpreter)"),
"C17": ("exploration", "Every n in 0..10^5 x 4 suffixes x letter cases enumerated; random n < 2^53 biased to teens/boundaries in random sentence frames (also joined to a word by a hyphen, after earlier numbers and suffix-like words); oracle = reference ordinal rule on the integer, exact span, single correct suggestion, fix-point after applying it.",
        "Frames keep '<n><suffix>' delimited by non-alphanumeric characters.",
        "exhaustive enumeration + property-based testing (proptest); reference-model oracle"),
"C18": ("exploration", "Generated single-paragraph titles (small words, proper nouns in wrong case / curly apostrophes, ligatures, Turkish dotted I, astral, hyphenated): same length, only case changes (or apostrophe normalisation inside a proper noun), first word upper-case, idempotent; the predicate form IsNotTitleCase reports a text exactly when title-casing changes it; both entry points (make_title_case_str and harper_wasm::to_title_case), paragraphs wrapped over lines and ending with a line break.",
        "Validity predicate from the statement.",
        "property-based testing (proptest); validity predicate + idempotence"),
"C19": ("exploration", "The harper.js statistics file is generated before, between and after the imports and must read back as the records imported so far. Histories of append sessions of lint/config records with arbitrary-Unicode contexts (real tokens from lexing + Unlintable tokens holding any characters): one line feed per record, read(write(a)++write(b)) == a++b, write is a homomorphism, summary equals a reference fold; configuration records with explicit null entries, numbers that need an exact float parser; later sessions may carry older time stamps; the same sessions imported one by one through the harper.js Linter must export the concatenation; the statistics file written by real harper-ls sessions.",
        "Number tokens are produced only by real lexing, so only reachable values occur.",
        "round-trip property testing over append histories (proptest)"),
}
ORDER = [f"C{i:02d}" for i in range(1, 20)]
NA_REASON = "check under construction in this round; not claimed yet"
m = {
  "version": 1,
  "setup_cmd": "./check build",
  "hooks": {
    "guard": "harper_verif",
    "enable": "no hooks are needed: the harness links the unmodified crates of /repo as path dependencies and drives harper-ls as a black box over stdio; nothing in /repo is guarded",
    "baseline_off_cmd": "cd /repo && RUSTUP_TOOLCHAIN=stable-x86_64-unknown-linux-gnu CARGO_NET_OFFLINE=true cargo test --workspace --no-fail-fast --offline",
    "source_commits": [],
    "add_only": True
  },
  "engines": [
    {"name": "hv", "path": "harness", "serves_properties": [p for p in ORDER if p in CHECKS],
     "kind_free_text": "Rust crate: proptest TestRunner driven from a binary (16 shards, seeds derived from VERIF_SEED), exhaustive enumerators, supervisor process for aborts/hangs, LSP client with schedule control, strace-based syscall monitor"}
  ],
  "checks": [],
  "not_applicable": [],
  "notes": "See DESIGN.md. ./check <ID> quick|thorough; exit 0 held, 1 VIOLATION, 2 infrastructure / generator health (never a violation)."
}
import os
extra = {}
if os.path.exists('/verif/tools/manifest_extra.json'):
    extra = json.load(open('/verif/tools/manifest_extra.json'))
for pid in ORDER:
    if pid in CHECKS:
        level, text, note, tech = CHECKS[pid]
        m["checks"].append({"property_id": pid, "quick_cmd": f"./check {pid} quick", "thorough_cmd": f"./check {pid} thorough",
            "evidence_file": f"/verif/evidence/{pid}.json", "replay_cmd_template": f"./check {pid} --replay {{path}}", "engine": "hv",
            "level_claimed": {"category": level, "text": text, "design_ref": f"DESIGN.md section 5 ({pid})"},
            "level_note": note, "technique": tech})
    else:
        m["not_applicable"].append({"property_id": pid, "reason": NA_REASON})
json.dump(m, open('/verif/MANIFEST.json', 'w'), indent=1)
print("claimed:", [c["property_id"] for c in m["checks"]])
