#!/bin/bash
# usage: tools/try_seeded.sh <patch.diff> <ID> [<ID>...]
# Applies a seeded change to a scratch worktree of /repo (never to /repo itself), builds a scratch
# copy of the committed harness against it and runs the quick checks. Nothing under /verif/evidence
# is touched. One trial at a time (uses /tmp/hv-mut).
set -u
PATCH=$(readlink -f "$1"); shift
M=${HV_MUT:-/tmp/hv-mut}
export CARGO_NET_OFFLINE=true
if [ ! -d $M/repo ]; then
  mkdir -p $M
  git -C /repo worktree add -q --detach $M/repo HEAD || exit 2
fi
git -C $M/repo checkout -q --detach $(git -C /repo rev-parse HEAD) 2>/dev/null
git -C $M/repo checkout -- . ; git -C $M/repo clean -fdq >/dev/null 2>&1
git -C $M/repo apply "$PATCH" || { echo "patch does not apply to $(git -C /repo rev-parse --short HEAD)"; exit 2; }
rm -rf $M/harness; mkdir -p $M/harness
git -C /verif archive HEAD harness | tar -x -C $M
sed -i "s#/repo/#$M/repo/#g" $M/harness/Cargo.toml $M/harness/build.rs $M/harness/src/frontends/mod.rs
if ! cargo build --release --manifest-path $M/harness/Cargo.toml --target-dir $M/target >$M/build.log 2>&1; then
  echo "BUILD FAILED with patch:"; grep -E "^error" -A 6 $M/build.log | head -30; exit 2
fi
NEED_LS=0; for id in "$@"; do case $id in C07|C08|C09|C10|C11|C14|C19) NEED_LS=1;; esac; done
if [ $NEED_LS = 1 ]; then
  cargo build --release --manifest-path $M/repo/Cargo.toml -p harper-ls --config 'profile.release.lto=false' --config 'profile.release.codegen-units=16' --config 'profile.release.strip=false' --target-dir $M/target-ls >$M/build-ls.log 2>&1 || { echo "harper-ls BUILD FAILED"; grep -E "^error" -A 6 $M/build-ls.log | head; exit 2; }
  export HV_LS_BIN=$M/target-ls/release/harper-ls
fi
NEED_CLI=0; for id in "$@"; do case $id in C13|C07) NEED_CLI=1;; esac; done
if [ $NEED_CLI = 1 ]; then
  cargo build --release --manifest-path $M/repo/Cargo.toml -p harper-cli --config 'profile.release.lto=false' --config 'profile.release.codegen-units=16' --config 'profile.release.strip=false' --target-dir $M/target-ls >$M/build-cli.log 2>&1 || { echo "harper-cli BUILD FAILED"; grep -E "^error" -A 6 $M/build-cli.log | head; exit 2; }
  export HV_CLI_BIN=$M/target-ls/release/harper-cli
fi
cd /verif
for id in "$@"; do
  echo "=== $id  <-  $(basename $(dirname $PATCH))/$(basename $PATCH)"
  HV_REPO=$M/repo HV_NO_EVIDENCE=1 VERIF_SEED=${VERIF_SEED:-0} timeout 3000 $M/target/release/hv check $id quick 2>&1 | grep -E "VIOLATION|^OK|INCONCLUSIVE|INFRA|failure in" | cut -c1-500 | head -6
done
git -C $M/repo checkout -- . ; git -C $M/repo clean -fdq >/dev/null 2>&1
