fn main() {
    println!("cargo:rustc-check-cfg=cfg(hv_has_git_commit)");
    let p = "/repo/harper-ls/src/git_commit_parser.rs";
    println!("cargo:rerun-if-changed={p}");
    if std::path::Path::new(p).exists() {
        println!("cargo:rustc-cfg=hv_has_git_commit");
    }
}
