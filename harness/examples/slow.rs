use std::time::{Duration, Instant};
use proptest::strategy::{Strategy, ValueTree};
use proptest::test_runner::{TestRunner, Config, RngSeed};
use std::sync::mpsc;
fn main() {
    let n: usize = std::env::args().nth(1).unwrap().parse().unwrap();
    let s = hv::props::docsweep::doc_case_strategy();
    let mut r = TestRunner::new(Config{rng_seed: RngSeed::Fixed(7), ..Config::default()});
    let mut cases = vec![];
    for _ in 0..n { cases.push(s.new_tree(&mut r).unwrap().current()); }
    let (tx, rx) = mpsc::channel::<(usize, Duration, bool)>();
    let cases = std::sync::Arc::new(cases);
    let next = std::sync::Arc::new(std::sync::atomic::AtomicUsize::new(0));
    let mut live = 0;
    let spawn = |tx: mpsc::Sender<(usize, Duration, bool)>| {
        let cases = cases.clone(); let next = next.clone();
        std::thread::Builder::new().stack_size(8<<20).spawn(move || {
            loop {
                let i = next.fetch_add(1, std::sync::atomic::Ordering::SeqCst);
                if i >= cases.len() { break; }
                tx.send((i, Duration::ZERO, false)).unwrap(); // started
                let t = Instant::now();
                let r = hv::props::docsweep::evaluate(&cases[i]);
                tx.send((i, t.elapsed(), r.is_ok())).unwrap();
                let _ = true;
            }
        }).unwrap();
    };
    for _ in 0..16 { spawn(tx.clone()); live += 1; }
    let mut started: std::collections::HashMap<usize, Instant> = Default::default();
    let mut done = 0;
    let mut hung = vec![];
    let t0 = Instant::now();
    while done + hung.len() < n && t0.elapsed() < Duration::from_secs(600) {
        match rx.recv_timeout(Duration::from_millis(500)) {
            Ok((i, d, ok)) => {
                if d == Duration::ZERO && !ok { started.insert(i, Instant::now()); }
                else { started.remove(&i); done += 1; if d > Duration::from_secs(2) { println!("SLOW {:?} {} len={}", d, cases[i].fe.label(), cases[i].text.len()); } if !ok { println!("PANIC {} {:?}", cases[i].fe.label(), &cases[i].text.chars().take(100).collect::<String>()); } }
            }
            Err(_) => {}
        }
        let now = Instant::now();
        let hs: Vec<usize> = started.iter().filter(|(_, t)| now.duration_since(**t) > Duration::from_secs(20)).map(|(i,_)| *i).collect();
        for i in hs { started.remove(&i); hung.push(i); println!("HUNG {} len={} {}", cases[i].fe.label(), cases[i].text.len(), serde_json::to_string(&cases[i].text).unwrap()); spawn(tx.clone()); live += 1; }
    }
    println!("done={} hung={} live={}", done, hung.len(), live);
    std::process::exit(0);
}
