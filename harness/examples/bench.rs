use std::time::Instant;
use harper_core::{linting::LintGroup, Dialect, FstDictionary};
use proptest::strategy::{Strategy, ValueTree};
use proptest::test_runner::TestRunner;
fn main() {
    let t = Instant::now();
    let _ = hv::generators::harvest();
    println!("harvest {:?}", t.elapsed());
    let t = Instant::now();
    for _ in 0..20 { let _g = LintGroup::new_curated(FstDictionary::curated(), Dialect::American); }
    println!("new_curated x20 {:?}", t.elapsed());
    let s = hv::props::docsweep::doc_case_strategy();
    let mut r = TestRunner::deterministic();
    let t = Instant::now();
    let mut cases = vec![];
    for _ in 0..300 { cases.push(s.new_tree(&mut r).unwrap().current()); }
    println!("gen x300 {:?}", t.elapsed());
    let t = Instant::now();
    let mut srv = 0;
    let mut ts = vec![];
    for c in &cases { if c.fe.server_wrappers {srv+=1;} let t1 = Instant::now(); let _ = hv::props::docsweep::evaluate(c); ts.push((t1.elapsed(), c.fe.label(), c.text.len())); }
    ts.sort(); ts.reverse();
    for x in ts.iter().take(15) { println!("{:?}", x); }
    println!("eval x300 {:?} (srv {srv})", t.elapsed());
    let t = Instant::now();
    for c in &cases { let _ = c.config.build(); }
    println!("cfg x300 {:?}", t.elapsed());
}
