use hv::lsp::{Sandbox, Server};
use serde_json::json;
fn main() {
    let sb = Sandbox::new("dbg");
    let settings = sb.settings(json!({}));
    let mut srv = Server::start(&sb, settings, None).unwrap();
    let text = "We like the frobnix very much.\nIs crème-x here?\nThis is an test line.\n";
    std::fs::write(sb.ws_file("a.txt"), text).unwrap();
    let uri = sb.uri("a.txt");
    let d = srv.open(&uri, "plaintext", text).unwrap();
    println!("open -> {:?}", d.iter().map(|d| d.key()).collect::<Vec<_>>());
    let r = srv.execute_and_publish("HarperAddToUserDict", json!(["frobnix", uri]), &uri).unwrap();
    println!("exec -> {:?}", r.iter().map(|d| d.key()).collect::<Vec<_>>());
    let text2 = "We like the crème-x very much.\nIs frobnix here?\nThis is an test line.\n";
    std::fs::write(sb.ws_file("a.txt"), text2).unwrap();
    let d = srv.change(&uri, 2, text2).unwrap();
    println!("change -> {:?}", d.iter().map(|d| d.key()).collect::<Vec<_>>());
    println!("dict {:?}", std::fs::read_to_string(sb.user_dict()));
    srv.shutdown().unwrap();
}
