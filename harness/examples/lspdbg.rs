use hv::lsp::{Sandbox, Server};
use serde_json::json;
fn main() {
    let sb = Sandbox::new("dbg");
    let mut srv = Server::start(&sb, sb.settings(json!({})), None).unwrap();
    let rk = harper_stats::RecordKind::Lint { kind: harper_core::linting::LintKind::Spelling, context: vec![] };
    let arg = serde_json::to_string(&rk).unwrap();
    println!("arg {arg}");
    let r = srv.execute("HarperRecordLint", json!([arg]));
    println!("exec {:?}", r);
    let id = srv.request("shutdown", serde_json::Value::Null).unwrap(); println!("shutdown -> {:?}", srv.wait_response(id, std::time::Duration::from_secs(5)));
    srv.shutdown().unwrap();
    println!("stats {:?} exists={}", sb.stats(), sb.stats().exists());
    println!("{:?}", std::fs::read_to_string(sb.stats()));
    let out = std::process::Command::new("find").arg(&sb.root).output().unwrap();
    println!("{}", String::from_utf8_lossy(&out.stdout));
}
