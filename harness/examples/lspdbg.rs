use hv::lsp::{Sandbox, Server};
use serde_json::json;
fn main() {
    let sb = Sandbox::new("dbg");
    let trace = sb.root.join("trace.txt");
    let wrapper = hv::lsp::strace::strace_wrapper(&trace, "%network,openat,open,creat,mkdir,mkdirat,rename,renameat,renameat2,unlink,unlinkat,truncate,ftruncate,link,linkat,symlink,symlinkat,chmod,fchmodat,execve");
    let mut srv = Server::start(&sb, sb.settings(json!({})), Some(wrapper)).unwrap();
    let text = "We like the frobnix very much.\n";
    std::fs::write(sb.ws_file("a.txt"), text).unwrap();
    let uri = sb.uri("a.txt");
    srv.open(&uri, "plaintext", text).unwrap();
    srv.execute_and_publish("HarperAddToUserDict", json!(["frobnix", uri]), &uri).unwrap();
    srv.execute_and_publish("HarperAddToFileDict", json!(["zorblax", uri]), &uri).unwrap();
    let rk = harper_stats::RecordKind::Lint { kind: harper_core::linting::LintKind::Spelling, context: vec![] };
    srv.execute("HarperRecordLint", json!([serde_json::to_string(&rk).unwrap()])).unwrap();
    srv.shutdown().unwrap();
    let t = std::fs::read_to_string(&trace).unwrap();
    let sys = hv::lsp::strace::parse_trace(&t);
    for s in &sys {
        let strs = s.string_args();
        let w = s.args.contains("O_WRONLY") || s.args.contains("O_RDWR") || s.args.contains("O_CREAT");
        if s.name.starts_with("open") && !w { continue; }
        println!("{} {}({:?}) {} = {}", s.pid, s.name, strs.iter().map(|x| x.chars().take(80).collect::<String>()).collect::<Vec<_>>(), s.args.split(',').filter(|a| a.contains("O_") || a.contains("AF_")).collect::<Vec<_>>().join(","), s.ret.chars().take(60).collect::<String>());
    }
    println!("total syscalls {}", sys.len());
}
