fn main() {
    let f = std::env::args().nth(1).unwrap();
    let v: serde_json::Value = serde_json::from_str(&std::fs::read_to_string(f).unwrap()).unwrap();
    let c: hv::props::docsweep::DocCase = serde_json::from_value(v["case"].clone()).unwrap();
    println!("{:?}", c.text);
    use harper_core::parsers::Parser;
    let src: Vec<char> = c.text.chars().collect();
    let (p, d) = c.fe.build(&src).unwrap();
    let toks = p.parse(&src);
    for t in &toks { println!("{:?} {:?}", t.span, hv::oracle::tokens::kind_label(&t.kind)); }
    let doc = harper_core::Document::new_from_vec(std::sync::Arc::new(src.clone()), &p, &d);
    println!("doc ok {}", doc.get_tokens().len());
    let mut g = harper_core::linting::LintGroup::new_curated(harper_core::FstDictionary::curated(), harper_core::Dialect::American);
    g.config = c.config.build();
    use harper_core::linting::Linter;
    let l = g.lint(&doc);
    println!("lints {}", l.len());
}
