use std::time::Instant;
use harper_core::parsers::Parser;
fn main() {
    let f = std::env::args().nth(1).unwrap();
    let v: serde_json::Value = serde_json::from_str(&std::fs::read_to_string(f).unwrap()).unwrap();
    let c: hv::props::docsweep::DocCase = serde_json::from_value(v["case"].clone()).unwrap();
    let src: Vec<char> = c.text.chars().collect();
    let t = Instant::now();
    let (p, _d) = c.fe.build(&src).unwrap();
    println!("build {:?}", t.elapsed());
    let t = Instant::now();
    let toks = p.parse(&src);
    println!("parse {:?} tokens={}", t.elapsed(), toks.len());
    let t = Instant::now();
    let r = hv::props::docsweep::evaluate(&c);
    println!("evaluate {:?} ok={}", t.elapsed(), r.is_ok());
}
