//! `hv` — property-based testing and fuzzing harness for Automattic/harper.
//!
//! See /verif/DESIGN.md. Every property module exposes
//! `run(&mut Run)` (generated-input search with an explicit oracle) and
//! `replay(check, case, &mut Run)` (re-executes one saved case without a generator).

pub mod core;
pub mod frontends;
pub mod fuzzing;
pub mod generators;
pub mod lsp;
pub mod oracle;
pub mod props;

pub use crate::core::*;
