use std::process::exit;

use hv::core::{Run, Tier};

fn usage() -> ! {
    eprintln!("usage: hv check <ID> quick|thorough | hv replay <file> | hv worker <...>");
    exit(2)
}

fn main() {
    let args: Vec<String> = std::env::args().collect();
    if args.len() < 2 {
        usage();
    }
    let seed: u64 = std::env::var("VERIF_SEED")
        .ok()
        .and_then(|s| s.trim().parse::<i128>().ok())
        .map(|v| v as u64)
        .unwrap_or(0);
    match args[1].as_str() {
        "check" => {
            if args.len() < 4 {
                usage();
            }
            let id = args[2].to_uppercase();
            let tier = match std::env::var("VERIF_TIER").ok().as_deref().or(Some(args[3].as_str())) {
                Some("thorough") => Tier::Thorough,
                _ => Tier::Quick,
            };
            let tier = if args[3] == "thorough" { Tier::Thorough } else if args[3] == "quick" { Tier::Quick } else { tier };
            let mut run = Run::new(&id, tier, seed);
            if !hv::props::dispatch_run(&id, &mut run) {
                eprintln!("unknown property {id}");
                exit(2);
            }
            exit(run.finish());
        }
        "replay" => {
            if args.len() < 3 {
                usage();
            }
            let text = std::fs::read_to_string(&args[2]).unwrap_or_else(|e| {
                eprintln!("cannot read {}: {e}", args[2]);
                exit(2)
            });
            let v: serde_json::Value = serde_json::from_str(&text).unwrap_or_else(|e| {
                eprintln!("bad replay file: {e}");
                exit(2)
            });
            let id = v["property"].as_str().unwrap_or("").to_string();
            let check = v["check"].as_str().unwrap_or("").to_string();
            let mut run = Run::new(&id, Tier::Quick, seed);
            run.strict = true;
            let r = hv::core::catch(|| hv::props::dispatch_replay(&id, &check, v["case"].clone(), &mut run));
            match r {
                Ok(Ok(())) => {
                    println!("REPLAY-OK property={id} check={check}: the case no longer violates the property");
                    exit(0);
                }
                Ok(Err(m)) => {
                    println!("  {m}");
                    println!("VIOLATION property={id} replay={}", args[2]);
                    exit(1);
                }
                Err(p) => {
                    println!("  panic at {}: {}", p.site(), p.message);
                    println!("VIOLATION property={id} replay={}", args[2]);
                    exit(1);
                }
            }
        }
        "worker" => {
            exit(hv::props::worker_main(&args[2..]));
        }
        _ => usage(),
    }
}
