use std::process::exit;

use std::path::{Path, PathBuf};
use std::process::Command;
use std::time::{Duration, Instant};

use hv::core::{Run, Tier};
use serde_json::{Value, json};

use hv::core::wait_limit;

fn self_exe() -> PathBuf {
    std::env::current_exe().expect("current_exe")
}

use hv::core::{Confirm, confirm_case};

fn write_supervisor_outcome(id: &str, tier: Tier, seed: u64, check: &str, case: &Value, observed: &str, wall: f64) -> PathBuf {
    let dir = Path::new(hv::core::VERIF_DIR).join("replays");
    let _ = std::fs::create_dir_all(&dir);
    let path = dir.join(format!("{}-{}-{:016x}.json", id, check.replace(['/', ' '], "_"), hv::core::h64(&case.to_string())));
    let _ = std::fs::write(&path, serde_json::to_string_pretty(&json!({"property": id, "check": check, "case": case, "observed": observed, "seed": seed, "tier": tier.name()})).unwrap());
    // minimal evidence: the child did not live to write its own
    let ev = json!({
        "property_id": id, "tier": tier.name(), "seed": seed, "level": "exploration",
        "coverage": {"evaluations": 1, "distinct_nontrivial": 0, "rule": "run ended by the supervisor", "samples": [hv::core::clip(case)],
                     "explanation": observed},
        "assumptions": [], "wall_s": wall, "violations": 1
    });
    let _ = std::fs::write(Path::new(hv::core::VERIF_DIR).join("evidence").join(format!("{id}.json")), serde_json::to_string_pretty(&ev).unwrap());
    path
}

fn supervise(id: &str, tier: Tier, seed: u64) -> i32 {
    use std::os::unix::process::ExitStatusExt;
    let t0 = Instant::now();
    let dir = Path::new(hv::core::VERIF_DIR).join("work").join(format!("{}-{}", id, std::process::id()));
    let _ = std::fs::create_dir_all(&dir);
    let limit = Duration::from_secs(
        std::env::var("HV_WALL_LIMIT_S").ok().and_then(|s| s.parse().ok()).unwrap_or(match tier {
            Tier::Quick => 3600,
            Tier::Thorough => 6 * 3600,
        }),
    );
    let mut child = match Command::new(self_exe())
        .args(["check", id, tier.name()])
        .env("HV_CHILD", "1")
        .env("HV_INFLIGHT_DIR", &dir)
        .spawn()
    {
        Ok(c) => c,
        Err(e) => {
            println!("INFRA: cannot spawn child: {e}");
            return 2;
        }
    };
    let st = wait_limit(&mut child, limit);
    let code = (|| {
        let Some(st) = st else {
            println!("INCONCLUSIVE property={id} wall-clock limit of {} s reached; child killed", limit.as_secs());
            return 2;
        };
        if let Some(code) = st.code() {
            if code != 3 {
                return code;
            }
            // hang reported by the child's watchdog
            let marker = std::fs::read_to_string(dir.join("hang")).unwrap_or_default();
            let mut it = marker.split_whitespace();
            let slot: usize = it.next().and_then(|s| s.parse().ok()).unwrap_or(0);
            let dl: u64 = it.next().and_then(|s| s.parse().ok()).unwrap_or(60_000);
            let Some(v) = hv::core::read_slot(&dir, slot) else {
                println!("INCONCLUSIVE property={id} watchdog fired but the in-flight case could not be read");
                return 2;
            };
            let check = v["check"].as_str().unwrap_or("?").to_string();
            println!("  watchdog: case in check {check} exceeded {dl} ms; confirming alone with a 4x deadline");
            return match confirm_case(id, &check, &v["case"], Duration::from_millis(dl * 4)) {
                Confirm::Timeout => {
                    let p = write_supervisor_outcome(id, tier, seed, &check, &v["case"], &format!("hang: no result within {} ms (confirmed alone in a fresh process)", dl * 4), t0.elapsed().as_secs_f64());
                    println!("  hang confirmed: {}", hv::core::truncate(&v["case"].to_string(), 400));
                    println!("VIOLATION property={id} replay={}", p.display());
                    1
                }
                Confirm::Signal(sig) => {
                    let p = write_supervisor_outcome(id, tier, seed, &check, &v["case"], &format!("process killed by signal {sig}"), t0.elapsed().as_secs_f64());
                    println!("VIOLATION property={id} replay={}", p.display());
                    1
                }
                Confirm::Violation(out) => {
                    let p = write_supervisor_outcome(id, tier, seed, &check, &v["case"], &out, t0.elapsed().as_secs_f64());
                    println!("{out}");
                    println!("VIOLATION property={id} replay={}", p.display());
                    1
                }
                Confirm::Passed => {
                    // slow because the machine was busy, not a hang: run the check again with
                    // deadlines wide enough for a loaded machine (once)
                    if std::env::var("HV_DEADLINE_SCALE").is_err() {
                        println!("  note: a case of check {check} exceeded {dl} ms under load but finished when run alone; repeating the run with wider deadlines");
                        let _ = std::fs::remove_dir_all(&dir);
                        // SAFETY: single-threaded at this point of the supervisor
                        unsafe { std::env::set_var("HV_DEADLINE_SCALE", "6") };
                        return supervise(id, tier, seed);
                    }
                    println!("INCONCLUSIVE property={id} a case exceeded its deadline under load twice but finished when run alone");
                    2
                }
            };
        }
        let sig = st.signal().unwrap_or(0);
        println!("  child died from signal {sig}; checking the in-flight cases one by one");
        for slot in 0..hv::core::MAX_SLOTS {
            let Some(v) = hv::core::read_slot(&dir, slot) else { continue };
            let check = v["check"].as_str().unwrap_or("?").to_string();
            match confirm_case(id, &check, &v["case"], Duration::from_secs(240)) {
                Confirm::Signal(s2) => {
                    let p = write_supervisor_outcome(id, tier, seed, &check, &v["case"], &format!("process killed by signal {s2} (stack overflow / abort)"), t0.elapsed().as_secs_f64());
                    println!("  abort confirmed: {}", hv::core::truncate(&v["case"].to_string(), 400));
                    println!("VIOLATION property={id} replay={}", p.display());
                    return 1;
                }
                Confirm::Timeout => {
                    let p = write_supervisor_outcome(id, tier, seed, &check, &v["case"], "hang (confirmed alone)", t0.elapsed().as_secs_f64());
                    println!("VIOLATION property={id} replay={}", p.display());
                    return 1;
                }
                _ => {}
            }
        }
        println!("INCONCLUSIVE property={id} child died from signal {sig} but no in-flight case reproduces it alone");
        2
    })();
    let _ = std::fs::remove_dir_all(&dir);
    code
}

fn usage() -> ! {
    eprintln!("usage: hv check <ID> quick|thorough | hv replay <file> | hv worker <...>");
    exit(2)
}

fn main() {
    let args: Vec<String> = std::env::args().collect();
    if args.len() < 2 {
        usage();
    }
    let seed: u64 = std::env::var("VERIF_SEED")
        .ok()
        .and_then(|s| s.trim().parse::<i128>().ok())
        .map(|v| v as u64)
        .unwrap_or(0);
    match args[1].as_str() {
        "check" => {
            if args.len() < 4 {
                usage();
            }
            let id = args[2].to_uppercase();
            let tier = match std::env::var("VERIF_TIER").ok().as_deref().or(Some(args[3].as_str())) {
                Some("thorough") => Tier::Thorough,
                _ => Tier::Quick,
            };
            let tier = if args[3] == "thorough" { Tier::Thorough } else if args[3] == "quick" { Tier::Quick } else { tier };
            if std::env::var("HV_CHILD").is_err() {
                exit(supervise(&id, tier, seed));
            }
            if let Some(inf) = hv::core::inflight() {
                inf.spawn_watchdog();
            }
            let mut run = Run::new(&id, tier, seed);
            if !hv::props::dispatch_run(&id, &mut run) {
                eprintln!("unknown property {id}");
                exit(2);
            }
            exit(run.finish());
        }
        "replay" if std::env::var("HV_CHILD").is_err() => {
            if args.len() < 3 {
                usage();
            }
            let text = std::fs::read_to_string(&args[2]).unwrap_or_else(|e| {
                eprintln!("cannot read {}: {e}", args[2]);
                exit(2)
            });
            let v: Value = serde_json::from_str(&text).unwrap_or_else(|e| {
                eprintln!("bad replay file: {e}");
                exit(2)
            });
            let id = v["property"].as_str().unwrap_or("").to_string();
            let check = v["check"].as_str().unwrap_or("").to_string();
            match confirm_case(&id, &check, &v["case"], Duration::from_secs(600)) {
                Confirm::Passed => {
                    println!("REPLAY-OK property={id} check={check}: the case no longer violates the property");
                    exit(0)
                }
                Confirm::Violation(out) => {
                    print!("{out}");
                    println!("VIOLATION property={id} replay={}", args[2]);
                    exit(1)
                }
                Confirm::Signal(sig) => {
                    println!("  process killed by signal {sig}");
                    println!("VIOLATION property={id} replay={}", args[2]);
                    exit(1)
                }
                Confirm::Timeout => {
                    println!("  no result within 600 s (hang)");
                    println!("VIOLATION property={id} replay={}", args[2]);
                    exit(1)
                }
            }
        }
        "replay" | "replay-child" => {
            if args.len() < 3 {
                usage();
            }
            let text = std::fs::read_to_string(&args[2]).unwrap_or_else(|e| {
                eprintln!("cannot read {}: {e}", args[2]);
                exit(2)
            });
            let v: serde_json::Value = serde_json::from_str(&text).unwrap_or_else(|e| {
                eprintln!("bad replay file: {e}");
                exit(2)
            });
            let id = v["property"].as_str().unwrap_or("").to_string();
            let check = v["check"].as_str().unwrap_or("").to_string();
            let mut run = Run::new(&id, Tier::Quick, seed);
            run.strict = true;
            let r = hv::core::catch(|| hv::props::dispatch_replay(&id, &check, v["case"].clone(), &mut run));
            match r {
                Ok(Ok(())) => {
                    exit(0);
                }
                Ok(Err(m)) => {
                    println!("  {m}");
                    exit(1);
                }
                Err(p) => {
                    println!("  panic at {}: {}", p.site(), p.message);
                    exit(1);
                }
            }
        }
        "worker" => {
            exit(hv::props::worker_main(&args[2..]));
        }
        _ => usage(),
    }
}
