//! E3 — bodies of the libFuzzer targets (also used to replay saved inputs without a fuzzer).
//! Each decodes the bytes into structured arguments and calls the same oracle functions as the
//! property checks; a violation panics (libFuzzer saves the input). Known findings are tolerated
//! the way the property checks tolerate them.

use crate::core::CaseCtx;
use crate::frontends::{Frontend, all_lang_ids};
use crate::generators::{ConfigBase, ConfigSpec};
use crate::props::docsweep::DocCase;

fn text_of(data: &[u8]) -> String {
    String::from_utf8_lossy(data).to_string()
}

fn must(r: Result<(), String>, ctx: &CaseCtx) {
    if let Err(e) = r {
        panic!("PROPERTY VIOLATION: {e}");
    }
    let known = crate::core::Known::load();
    for k in &ctx.known_hits {
        if known.get(k).is_none() {
            panic!("PROPERTY VIOLATION: {k} (not an open known finding)");
        }
    }
}

pub fn decode_doc_case(data: &[u8]) -> Option<DocCase> {
    if data.len() < 3 {
        return None;
    }
    let langs = all_lang_ids();
    let lang = langs[data[0] as usize % langs.len()];
    let flags = data[1];
    let cfg = match data[2] % 5 {
        0 => ConfigSpec::curated(),
        1 => ConfigSpec::all_on(),
        2 => ConfigSpec { base: ConfigBase::AllOff, overlay: vec![] },
        3 => ConfigSpec { base: ConfigBase::Random(data[2] as u64 * 7919), overlay: vec![] },
        _ => ConfigSpec::only(&["SpellCheck", "LongSentences", "RepeatedWords"]),
    };
    Some(DocCase {
        fe: Frontend {
            lang: lang.to_string(),
            ignore_link_title: flags & 1 == 1,
            server_wrappers: flags & 2 == 2,
            isolate_english: flags & 4 == 4,
            by_filename: flags & 8 == 8 && crate::frontends::extension_of(lang).is_some(),
        },
        text: text_of(&data[3..]),
        config: cfg,
        dialect: (flags >> 4) % 4,
    })
}

/// C01 + C02 + C03(b) on one document
pub fn lint_any(data: &[u8]) {
    let Some(case) = decode_doc_case(data) else { return };
    let mut ctx = CaseCtx::default();
    must(crate::props::c01::test_case(&case, &mut ctx), &ctx);
    let mut ctx = CaseCtx::default();
    must(crate::props::c02::test_case(&case, &mut ctx), &ctx);
    let mut ctx = CaseCtx::default();
    must(crate::props::c03::test_doc_case(&case, &mut ctx), &ctx);
}

/// C03(a): the edit primitive
pub fn suggestion_apply(data: &[u8]) {
    if data.len() < 4 {
        return;
    }
    use crate::props::c03::{EditCase, Sug};
    let split = data[3] as usize % (data.len() - 3).max(1);
    let body = &data[4.min(data.len())..];
    let split = split.min(body.len());
    let text = text_of(&body[..split]);
    let repl = text_of(&body[split..]);
    let n = text.chars().count();
    let a = data[0] as usize % (n + 1);
    let b = data[1] as usize % (n + 1);
    let sug = match data[2] % 3 {
        0 => Sug::Replace(repl),
        1 => Sug::Insert(repl),
        _ => Sug::Remove,
    };
    let case = EditCase { text, start: a.min(b), end: a.max(b), sug };
    let mut ctx = CaseCtx::default();
    must(crate::props::c03::test_edit(&case, &mut ctx), &ctx);
}

/// C13: overlap resolution on span lists
pub fn overlaps(data: &[u8]) {
    let spans: Vec<(usize, usize)> = data
        .chunks_exact(2)
        .take(64)
        .map(|c| {
            let (a, b) = (c[0] as usize % 64, c[1] as usize % 64);
            (a.min(b), a.max(b))
        })
        .collect();
    let mut ctx = CaseCtx::default();
    must(crate::props::c13::test_spans_pub(&spans, &mut ctx), &ctx);
}

/// C15: curated back-ends agree; fuzzy results are sound
pub fn dict_query(data: &[u8]) {
    if data.len() < 2 {
        return;
    }
    let q = text_of(&data[2..]);
    if q.chars().count() > 64 {
        return;
    }
    let mut ctx = CaseCtx::default();
    must(crate::props::c15::test_curated_query(&q, &mut ctx), &ctx);
    let case = crate::props::c15::FuzzyCase {
        words: None,
        query: q,
        bound: data[0] % 4,
        cap: [1usize, 3, 100][data[1] as usize % 3],
    };
    let mut ctx = CaseCtx::default();
    must(crate::props::c15::test_fuzzy(&case, &mut ctx), &ctx);
}

/// C18
pub fn title_case(data: &[u8]) {
    let t = text_of(data).replace("\n\n", "\n");
    if t.chars().count() > 400 {
        return;
    }
    let mut ctx = CaseCtx::default();
    must(crate::props::c18::test_title(&t, &mut ctx), &ctx);
}

/// C19: arbitrary context strings through write/read
pub fn stats_roundtrip(data: &[u8]) {
    use crate::props::c19::{RecSpec, StatsCase, TokSpec};
    if data.len() < 2 {
        return;
    }
    let sessions = 1 + (data[0] % 3) as usize;
    let body = text_of(&data[2..]);
    let parts: Vec<&str> = body.split('\u{1}').collect();
    let mut ss: Vec<Vec<RecSpec>> = vec![vec![]; sessions];
    for (i, p) in parts.iter().enumerate() {
        let spec = if i % 3 == 2 {
            TokSpec::Lexed(p.chars().take(60).collect())
        } else {
            TokSpec::Unlintable(p.to_string())
        };
        ss[i % sessions].push(RecSpec::Synthetic { kind: data[1].wrapping_add(i as u8), context: vec![spec] });
    }
    let case = StatsCase { sessions: ss, when: data[1] as i64 - 7, uuid_seed: data[0] as u64, when_offsets: vec![0, -(data[0] as i64), data[1] as i64] };
    let mut ctx = CaseCtx::default();
    must(crate::props::c19::test_stats(&case, &mut ctx), &ctx);
}

/// replay a saved libFuzzer input in-process
pub fn replay(target: &str, data: &[u8]) -> Result<(), String> {
    let r = crate::core::catch(|| match target {
        "lint_any" => lint_any(data),
        "suggestion_apply" => suggestion_apply(data),
        "overlaps" => overlaps(data),
        "dict_query" => dict_query(data),
        "title_case" => title_case(data),
        "stats_roundtrip" => stats_roundtrip(data),
        _ => {}
    });
    r.map_err(|p| format!("{} ({})", p.message, p.site()))
}

/// write a small seed corpus for `target` into `dir` (harvested from the repository at run time)
pub fn write_seeds(target: &str, dir: &std::path::Path) -> usize {
    let _ = std::fs::create_dir_all(dir);
    let h = crate::generators::harvest();
    let langs = all_lang_ids();
    let mut n = 0;
    let mut put = |bytes: Vec<u8>| {
        let _ = std::fs::write(dir.join(format!("seed-{n:04}")), bytes);
        n += 1;
    };
    match target {
        "lint_any" => {
            for (i, (ext, content)) in h.fixtures.iter().enumerate() {
                if content.len() > 3000 {
                    continue;
                }
                let lang = match ext.as_str() {
                    "md" => "markdown",
                    "html" => "html",
                    "typ" => "typst",
                    "lhs" => "literate haskell",
                    "rs" => "rust",
                    "ts" => "typescript",
                    "js" => "javascript",
                    "py" => "python",
                    "c" => "c",
                    "cpp" => "cpp",
                    "java" => "java",
                    "lua" => "lua",
                    "rb" => "ruby",
                    "sh" => "shellscript",
                    "php" => "php",
                    "cs" => "csharp",
                    _ => "plaintext",
                };
                let li = langs.iter().position(|l| *l == lang).unwrap_or(0) as u8;
                let mut b = vec![li, (i % 8) as u8, (i % 5) as u8];
                b.extend_from_slice(content.as_bytes());
                put(b);
            }
            for (i, s) in h.sentences.iter().enumerate().step_by(40) {
                let mut b = vec![(i % langs.len()) as u8, (i % 8) as u8, 1];
                b.extend_from_slice(s.as_bytes());
                put(b);
            }
        }
        "suggestion_apply" => {
            put(b"\x00\x04\x00\x05This is a testX".to_vec());
            put(b"\x02\x02\x01\x03ab, ".to_vec());
            put("\u{1}\u{3}\u{2}\u{2}😀é".as_bytes().to_vec());
        }
        "overlaps" => {
            put(vec![0, 5, 3, 8, 6, 9]);
            put(vec![0, 10, 0, 0, 2, 4]);
            put(vec![1, 1, 1, 1]);
        }
        "dict_query" => {
            for w in ["hello", "Helo", "don’t", "naïve", "teh", "O'Brien", ""] {
                let mut b = vec![2, 1];
                b.extend_from_slice(w.as_bytes());
                put(b);
            }
        }
        "title_case" => {
            for s in h.sentences.iter().step_by(80) {
                put(s.as_bytes().to_vec());
            }
            put("the ﬁsh and the ßeta of o’brien in boston".as_bytes().to_vec());
        }
        "stats_roundtrip" => {
            put("\u{2}\u{3}word\u{1}line\nbreak\u{1}1e999TH".as_bytes().to_vec());
            put("\u{1}\u{0}\"quoted\"\\\u{1}\u{2028}".as_bytes().to_vec());
        }
        _ => {}
    }
    n
}
