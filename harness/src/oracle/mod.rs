//! Reference models and validity predicates, written from the property statements.

pub mod lsp_pos;
pub mod tokens;

use harper_core::Span;
use harper_core::linting::{Lint, Suggestion};

/// Reference splice: the text obtained by applying `sug` at `span` (char indices).
pub fn ref_apply(text: &[char], start: usize, end: usize, sug: &Suggestion) -> Vec<char> {
    let mut out = Vec::with_capacity(text.len() + 8);
    match sug {
        Suggestion::ReplaceWith(r) => {
            out.extend_from_slice(&text[..start]);
            out.extend_from_slice(r);
            out.extend_from_slice(&text[end..]);
        }
        Suggestion::InsertAfter(r) => {
            out.extend_from_slice(&text[..end]);
            out.extend_from_slice(r);
            out.extend_from_slice(&text[end..]);
        }
        Suggestion::Remove => {
            out.extend_from_slice(&text[..start]);
            out.extend_from_slice(&text[end..]);
        }
    }
    out
}

/// C03 oracle for one lint against the text it was produced for.
pub fn check_lint_against_text(lint: &Lint, text: &[char]) -> Result<(), String> {
    let Span { start, end } = lint.span;
    if !(start <= end && end <= text.len()) {
        return Err(format!(
            "lint span {}..{} outside text of {} chars ({:?}: {})",
            start,
            end,
            text.len(),
            lint.lint_kind,
            lint.message
        ));
    }
    for sug in &lint.suggestions {
        let expected = ref_apply(text, start, end, sug);
        let mut got = text.to_vec();
        sug.apply(lint.span, &mut got);
        if got != expected {
            return Err(format!(
                "suggestion {:?} at {}..{} yields {:?}, reference splice {:?}",
                sug,
                start,
                end,
                got.iter().collect::<String>(),
                expected.iter().collect::<String>()
            ));
        }
    }
    Ok(())
}

/// Textbook Levenshtein distance in usize.
pub fn lev(a: &[char], b: &[char]) -> usize {
    let mut prev: Vec<usize> = (0..=b.len()).collect();
    let mut cur = vec![0; b.len() + 1];
    for i in 1..=a.len() {
        cur[0] = i;
        for j in 1..=b.len() {
            let sub = prev[j - 1] + usize::from(a[i - 1] != b[j - 1]);
            cur[j] = sub.min(prev[j] + 1).min(cur[j - 1] + 1);
        }
        std::mem::swap(&mut prev, &mut cur);
    }
    prev[b.len()]
}

pub fn chars(s: &str) -> Vec<char> {
    s.chars().collect()
}

pub fn string(c: &[char]) -> String {
    c.iter().collect()
}
