//! Independent reference implementation of LSP positions (line / UTF-16 column).
//! Lines are split at '\n'; a "\r\n" line end leaves the '\r' as the last character of the line
//! (LSP treats \r\n as one terminator; positions inside it are not generated).

#[derive(Debug, Clone, Copy, PartialEq, Eq, PartialOrd, Ord)]
pub struct Pos {
    pub line: u32,
    pub col: u32,
}

/// char index -> position
pub fn index_to_pos(text: &[char], idx: usize) -> Pos {
    let mut line = 0u32;
    let mut col = 0u32;
    for &c in &text[..idx.min(text.len())] {
        if c == '\n' {
            line += 1;
            col = 0;
        } else {
            col += c.len_utf16() as u32;
        }
    }
    Pos { line, col }
}

/// position -> char index (column past end of line clamps to the line end; a column inside a
/// surrogate pair resolves to the start of that character; line past the end clamps to text end)
pub fn pos_to_index(text: &[char], pos: Pos) -> usize {
    let mut line = 0u32;
    let mut i = 0usize;
    while line < pos.line {
        match text[i..].iter().position(|&c| c == '\n') {
            Some(off) => {
                i += off + 1;
                line += 1;
            }
            None => return text.len(),
        }
    }
    let mut col = 0u32;
    while i < text.len() && text[i] != '\n' {
        let w = text[i].len_utf16() as u32;
        if col + w > pos.col {
            break;
        }
        col += w;
        i += 1;
    }
    i
}

/// Apply an LSP text edit (range replaced by new_text) the way a client does.
pub fn apply_edit(text: &[char], start: Pos, end: Pos, new_text: &str) -> Vec<char> {
    let s = pos_to_index(text, start);
    let e = pos_to_index(text, end).max(s);
    let mut out = text[..s].to_vec();
    out.extend(new_text.chars());
    out.extend_from_slice(&text[e..]);
    out
}
