//! C02 validity predicate over a token stream, written from the property statement.

use harper_core::{Currency, Punctuation, Token, TokenKind};

#[derive(Debug, Clone)]
pub struct TokViolation {
    /// which clause of the statement: bounds | order | zero_width | tiling | shape_word |
    /// shape_space | shape_number | shape_punct | quote_twin
    pub clause: &'static str,
    pub index: usize,
    pub detail: String,
}

fn kind_name(k: &TokenKind) -> &'static str {
    match k {
        TokenKind::Word(_) => "Word",
        TokenKind::Punctuation(_) => "Punctuation",
        TokenKind::Decade => "Decade",
        TokenKind::Number(_) => "Number",
        TokenKind::Space(_) => "Space",
        TokenKind::Newline(_) => "Newline",
        TokenKind::EmailAddress => "EmailAddress",
        TokenKind::Url => "Url",
        TokenKind::Hostname => "Hostname",
        TokenKind::Unlintable => "Unlintable",
        TokenKind::ParagraphBreak => "ParagraphBreak",
        TokenKind::Regexish => "Regexish",
    }
}

pub fn kind_label(k: &TokenKind) -> &'static str {
    kind_name(k)
}

/// Independent table: which characters may a punctuation token of a given kind consist of.
fn punct_chars(p: &Punctuation) -> &'static [char] {
    match p {
        Punctuation::Ellipsis => &['…'],
        Punctuation::EnDash => &['–'],
        Punctuation::EmDash => &['—'],
        Punctuation::Ampersand => &['&'],
        Punctuation::Period => &['.'],
        Punctuation::Bang => &['!'],
        Punctuation::Question => &['?'],
        Punctuation::Colon => &[':'],
        Punctuation::Semicolon => &[';'],
        Punctuation::Quote(_) => &['"', '“', '”'],
        Punctuation::Comma => &[',', '、', '，'],
        Punctuation::Hyphen => &['-'],
        Punctuation::OpenSquare => &['['],
        Punctuation::CloseSquare => &[']'],
        Punctuation::OpenRound => &['('],
        Punctuation::CloseRound => &[')'],
        Punctuation::OpenCurly => &['{'],
        Punctuation::CloseCurly => &['}'],
        Punctuation::Hash => &['#'],
        Punctuation::Apostrophe => &['\'', '’'],
        Punctuation::Percent => &['%'],
        Punctuation::ForwardSlash => &['/'],
        Punctuation::Backslash => &['\\'],
        Punctuation::LessThan => &['<'],
        Punctuation::GreaterThan => &['>'],
        Punctuation::Equal => &['='],
        Punctuation::Star => &['*'],
        Punctuation::Tilde => &['~'],
        Punctuation::At => &['@'],
        Punctuation::Caret => &['^'],
        Punctuation::Plus => &['+'],
        Punctuation::Currency(c) => match c {
            Currency::Dollar => &['$'],
            Currency::Cent => &['¢'],
            Currency::Euro => &['€'],
            Currency::Ruble => &['₽'],
            Currency::Lira => &['₺'],
            Currency::Pound => &['£'],
            Currency::Yen => &['¥'],
            Currency::Baht => &['฿'],
            Currency::Won => &['₩'],
            Currency::Kip => &['₭'],
        },
        Punctuation::Pipe => &['|'],
        Punctuation::Underscore => &['_'],
    }
}

fn parse_number_text(text: &[char]) -> Option<f64> {
    // `_` between two digits is a digit separator in many notations; a number token whose text
    // uses it still denotes the value of its digits
    let mut s = String::new();
    for (i, c) in text.iter().enumerate() {
        if *c == '_' && i > 0 && i + 1 < text.len() && text[i - 1].is_ascii_hexdigit() && text[i + 1].is_ascii_hexdigit() {
            continue;
        }
        s.push(*c);
    }
    if s.len() > 2 && s.starts_with("0x") {
        return u64::from_str_radix(&s[2..], 16).ok().map(|v| v as f64);
    }
    // a number token's text must start with a digit (no sign, no "inf"/"nan" words)
    if !s.starts_with(|c: char| c.is_ascii_digit()) {
        return None;
    }
    s.parse::<f64>().ok()
}

/// `plain`: the front-end is plain English, so the tokens must tile the text.
pub fn check_tokens(tokens: &[Token], text: &[char], plain: bool, is_document: bool) -> Vec<TokViolation> {
    let n = text.len();
    let mut out = vec![];
    let mut push = |clause: &'static str, index: usize, detail: String| {
        out.push(TokViolation {
            clause,
            index,
            detail,
        })
    };
    let mut prev_end: Option<(usize, usize)> = None; // (end, index) of previous non-zero-width token
    for (i, t) in tokens.iter().enumerate() {
        let (s, e) = (t.span.start, t.span.end);
        if s > e || e > n {
            push(
                "bounds",
                i,
                format!("{} token {}..{} outside text of {} chars", kind_name(&t.kind), s, e, n),
            );
            continue;
        }
        if s == e {
            if !matches!(t.kind, TokenKind::ParagraphBreak | TokenKind::Newline(_)) {
                push(
                    "zero_width",
                    i,
                    format!("zero-width {} token at {}", kind_name(&t.kind), s),
                );
            }
            continue;
        }
        if let Some((pe, pi)) = prev_end {
            if s < pe {
                push(
                    "order",
                    i,
                    format!(
                        "{} token {}..{} starts before the end ({}) of the preceding {} token",
                        kind_name(&t.kind),
                        s,
                        e,
                        pe,
                        kind_name(&tokens[pi].kind)
                    ),
                );
            } else if plain && s != pe {
                push(
                    "tiling",
                    i,
                    format!("gap {}..{} before {} token: characters lost", pe, s, kind_name(&t.kind)),
                );
            }
        } else if plain && s != 0 {
            push("tiling", i, format!("first token starts at {s}, not 0"));
        }
        prev_end = Some((e.max(prev_end.map(|p| p.0).unwrap_or(0)), i));
        let body = &text[s..e];
        match &t.kind {
            TokenKind::Word(_) => {
                if body.iter().any(|c| c.is_whitespace()) {
                    push(
                        "shape_word",
                        i,
                        format!("word token {:?} contains whitespace", body.iter().collect::<String>()),
                    );
                }
            }
            TokenKind::Space(_) => {
                if !body.iter().all(|c| c.is_whitespace()) {
                    push(
                        "shape_space",
                        i,
                        format!("space token {:?} contains non-blank characters", body.iter().collect::<String>()),
                    );
                }
            }
            TokenKind::Number(num) => {
                let mut digits = body;
                let mut ok = true;
                if let Some(suffix) = num.suffix {
                    let want: Vec<char> = suffix.to_chars();
                    if body.len() < 3
                        || !body[body.len() - 2..]
                            .iter()
                            .zip(&want)
                            .all(|(a, b)| a.eq_ignore_ascii_case(b))
                    {
                        ok = false;
                    } else {
                        digits = &body[..body.len() - 2];
                    }
                }
                let parsed = if ok { parse_number_text(digits) } else { None };
                let matches_value = match parsed {
                    Some(v) => v == num.value.0 || (v.is_nan() && num.value.0.is_nan()),
                    None => false,
                };
                if !matches_value {
                    push(
                        "shape_number",
                        i,
                        format!(
                            "number token {:?} does not denote value {} with suffix {:?}",
                            body.iter().collect::<String>(),
                            num.value.0,
                            num.suffix
                        ),
                    );
                }
            }
            TokenKind::Punctuation(p) => {
                let allowed = punct_chars(p);
                let ok = match p {
                    Punctuation::Ellipsis => {
                        (body.len() == 1 && body[0] == '…')
                            || (body.len() >= 2 && body.iter().all(|c| *c == '.'))
                    }
                    _ => body.len() == 1 && allowed.contains(&body[0]),
                };
                if !ok {
                    push(
                        "shape_punct",
                        i,
                        format!("punctuation token {:?} has text {:?}", p, body.iter().collect::<String>()),
                    );
                }
                if let Punctuation::Quote(q) = p {
                    if let Some(tw) = q.twin_loc {
                        let back = tokens.get(tw).and_then(|o| match &o.kind {
                            TokenKind::Punctuation(Punctuation::Quote(oq)) => Some(oq.twin_loc),
                            _ => None,
                        });
                        if tw == i || back != Some(Some(i)) {
                            push(
                                "quote_twin",
                                i,
                                format!("quote token #{i} twin_loc={tw} does not point at a quote pointing back (found {back:?})"),
                            );
                        }
                    }
                }
            }
            _ => {}
        }
    }
    if plain && n > 0 {
        match prev_end {
            Some((pe, _)) if pe == n => {}
            Some((pe, _)) => push("tiling", tokens.len(), format!("last token ends at {pe}, text has {n} chars")),
            None => push("tiling", 0, format!("no token covers any of the {n} chars")),
        }
    }
    let _ = is_document;
    out
}
