//! G-FRONTEND — the language-id table of harper-ls (`backend.rs::update_document`), built through
//! the same public constructors the server uses.

use std::sync::Arc;

use harper_comments::CommentParser;
use harper_core::parsers::{
    CollapseIdentifiers, IsolateEnglish, Markdown, MarkdownOptions, Parser, PlainEnglish,
};
use harper_core::{Dictionary, FstDictionary, MergedDictionary};
use harper_html::HtmlParser;
use harper_literate_haskell::LiterateHaskellParser;
use harper_typst::Typst;
use proptest::prelude::*;
use serde::{Deserialize, Serialize};

#[cfg(hv_has_git_commit)]
#[path = "/repo/harper-ls/src/git_commit_parser.rs"]
#[allow(dead_code)]
mod git_commit_parser;

pub const COMMENT_LANGS: [&str; 22] = [
    "rust",
    "typescript",
    "typescriptreact",
    "javascript",
    "javascriptreact",
    "python",
    "nix",
    "go",
    "c",
    "cpp",
    "cmake",
    "ruby",
    "swift",
    "csharp",
    "toml",
    "lua",
    "shellscript",
    "java",
    "haskell",
    "php",
    "dart",
    "scala",
];

pub const MARKUP_LANGS: [&str; 6] = [
    "plaintext",
    "markdown",
    "html",
    "typst",
    "literate haskell",
    "git-commit",
];

pub fn all_lang_ids() -> Vec<&'static str> {
    MARKUP_LANGS
        .iter()
        .chain(COMMENT_LANGS.iter())
        .copied()
        .filter(|l| *l != "git-commit" || has_git_commit())
        .collect()
}

pub fn has_git_commit() -> bool {
    cfg!(hv_has_git_commit)
}

#[derive(Debug, Clone, Serialize, Deserialize, PartialEq, Eq, Hash)]
pub struct Frontend {
    pub lang: String,
    /// MarkdownOptions.ignore_link_title
    pub ignore_link_title: bool,
    /// wrap like the server does: CollapseIdentifiers (comment languages, LHS)
    pub server_wrappers: bool,
    /// IsolateEnglish wrapper (server option `isolateEnglish`)
    pub isolate_english: bool,
    /// choose the comment parser from a file name (as harper-cli does) instead of a language id
    #[serde(default)]
    pub by_filename: bool,
}

/// A file extension harper-cli maps to this language id.
pub fn extension_of(lang: &str) -> Option<&'static str> {
    Some(match lang {
        "python" => "py",
        "nix" => "nix",
        "rust" => "rs",
        "typescript" => "ts",
        "typescriptreact" => "tsx",
        "javascript" => "js",
        "javascriptreact" => "jsx",
        "go" => "go",
        "c" => "c",
        "cpp" => "cpp",
        "cmake" => "cmake",
        "ruby" => "rb",
        "swift" => "swift",
        "csharp" => "cs",
        "toml" => "toml",
        "lua" => "lua",
        "shellscript" => "sh",
        "java" => "java",
        "haskell" => "hs",
        "php" => "php",
        "dart" => "dart",
        "scala" => "scala",
        _ => return None,
    })
}

impl Frontend {
    pub fn plain() -> Self {
        Frontend {
            lang: "plaintext".into(),
            ignore_link_title: false,
            server_wrappers: false,
            isolate_english: false,
            by_filename: false,
        }
    }
    pub fn of(lang: &str) -> Self {
        Frontend {
            lang: lang.into(),
            ignore_link_title: false,
            server_wrappers: false,
            isolate_english: false,
            by_filename: false,
        }
    }
    pub fn is_plain(&self) -> bool {
        matches!(self.lang.as_str(), "plaintext" | "text" | "mail")
    }
    pub fn label(&self) -> String {
        format!(
            "{}{}{}{}{}",
            self.lang,
            if self.ignore_link_title { "+ilt" } else { "" },
            if self.server_wrappers { "+srv" } else { "" },
            if self.isolate_english { "+iso" } else { "" },
            if self.by_filename { "+by-filename" } else { "" }
        )
    }

    /// Build the parser for `source` and the dictionary documents are created with.
    pub fn build(&self, source: &[char]) -> Option<(Box<dyn Parser>, Arc<dyn Dictionary>)> {
        let mut opts = MarkdownOptions::default();
        opts.ignore_link_title = self.ignore_link_title;
        let base: Arc<dyn Dictionary> = FstDictionary::curated();
        let mut dict: Arc<dyn Dictionary> = base.clone();
        let wrap_ident = |parser: Box<dyn Parser>,
                          ident: Option<harper_core::MutableDictionary>,
                          dict: &mut Arc<dyn Dictionary>|
         -> Box<dyn Parser> {
            match ident {
                Some(id) => {
                    let mut merged = MergedDictionary::new();
                    merged.add_dictionary(base.clone());
                    merged.add_dictionary(Arc::new(id));
                    let merged: Arc<dyn Dictionary> = Arc::new(merged);
                    *dict = merged.clone();
                    Box::new(CollapseIdentifiers::new(parser, Box::new(merged)))
                }
                None => parser,
            }
        };
        let mut parser: Box<dyn Parser> = match self.lang.as_str() {
            "plaintext" | "text" | "mail" => Box::new(PlainEnglish),
            "markdown" => Box::new(Markdown::new(opts)),
            "html" => Box::new(HtmlParser::default()),
            "typst" => Box::new(Typst),
            "literate haskell" | "lhaskell" => {
                let p = LiterateHaskellParser::new_markdown(opts);
                if self.server_wrappers {
                    let ident = p.create_ident_dict(source, opts);
                    wrap_ident(Box::new(p), ident, &mut dict)
                } else {
                    Box::new(p)
                }
            }
            #[cfg(hv_has_git_commit)]
            "git-commit" | "gitcommit" => {
                Box::new(git_commit_parser::GitCommitParser::new_markdown(opts))
            }
            other => {
                let p = if self.by_filename {
                    let ext = extension_of(other)?;
                    CommentParser::new_from_filename(std::path::Path::new(&format!("/tmp/src/file.{ext}")), opts)?
                } else {
                    CommentParser::new_from_language_id(other, opts)?
                };
                if self.server_wrappers {
                    let ident = p.create_ident_dict(source);
                    wrap_ident(Box::new(p), ident, &mut dict)
                } else {
                    Box::new(p)
                }
            }
        };
        if self.isolate_english {
            parser = Box::new(IsolateEnglish::new(parser, dict.clone()));
        }
        Some((parser, dict))
    }
}

pub fn lang_strategy() -> BoxedStrategy<String> {
    // exploration aid (not used by registered commands): restrict to one language
    if let Ok(l) = std::env::var("HV_LANG") {
        return Just(l).boxed();
    }
    let ids = all_lang_ids();
    let n = ids.len();
    prop_oneof![
        // plain + markdown get a bigger share: they are the most used front-ends
        2 => Just("plaintext".to_string()),
        2 => Just("markdown".to_string()),
        8 => (0..n).prop_map(move |i| ids[i].to_string()),
    ]
    .boxed()
}

pub fn frontend_strategy() -> BoxedStrategy<Frontend> {
    (
        lang_strategy(),
        any::<bool>(),
        prop::bool::weighted(0.35),
        prop::bool::weighted(0.15),
        prop::bool::weighted(0.2),
    )
        .prop_map(|(lang, ilt, srv, iso, by_filename)| Frontend {
            by_filename: by_filename && extension_of(&lang).is_some(),
            lang,
            ignore_link_title: ilt,
            server_wrappers: srv,
            isolate_english: iso,
        })
        .boxed()
}
