//! E4 — LSP client for the real `harper-ls` binary (black box over stdio) with schedule control.
//!
//! Every document update in harper-ls awaits a `workspace/configuration` round trip. In manual
//! mode the client queues those requests and the test decides in which order they are answered,
//! which is the order in which the concurrently running handlers complete.

use std::collections::{HashMap, VecDeque};
use std::io::{BufRead, BufReader, Read, Write};
use std::path::{Path, PathBuf};
use std::process::{Child, ChildStdin, Command, Stdio};
use std::sync::mpsc::{Receiver, RecvTimeoutError, channel};
use std::time::{Duration, Instant};

use serde_json::{Value, json};

pub mod strace;

pub fn ls_binary() -> PathBuf {
    PathBuf::from(
        std::env::var("HV_LS_BIN").unwrap_or_else(|_| "/verif/target/ls/release/harper-ls".into()),
    )
}

#[derive(Debug, Clone, PartialEq)]
pub struct Diag {
    pub start: (u32, u32),
    pub end: (u32, u32),
    pub message: String,
    pub severity: i64,
}

impl Diag {
    fn from_json(v: &Value) -> Diag {
        let p = |x: &Value| {
            (
                x["line"].as_u64().unwrap_or(0) as u32,
                x["character"].as_u64().unwrap_or(0) as u32,
            )
        };
        Diag {
            start: p(&v["range"]["start"]),
            end: p(&v["range"]["end"]),
            message: v["message"].as_str().unwrap_or("").to_string(),
            severity: v["severity"].as_i64().unwrap_or(0),
        }
    }
    pub fn key(&self) -> String {
        format!(
            "{:05}:{:05}-{:05}:{:05} s{} {}",
            self.start.0, self.start.1, self.end.0, self.end.1, self.severity, self.message
        )
    }
}

#[derive(Debug)]
pub enum LspError {
    Timeout(String),
    Died(String),
    Protocol(String),
}

impl std::fmt::Display for LspError {
    fn fmt(&self, f: &mut std::fmt::Formatter<'_>) -> std::fmt::Result {
        match self {
            LspError::Timeout(s) => write!(f, "timeout: {s}"),
            LspError::Died(s) => write!(f, "server died: {s}"),
            LspError::Protocol(s) => write!(f, "protocol: {s}"),
        }
    }
}

pub struct Sandbox {
    pub root: PathBuf,
}

impl Sandbox {
    /// A fresh sandbox directory under /verif/work (HOME, XDG dirs, workspace, dictionaries).
    pub fn new(tag: &str) -> Sandbox {
        static N: std::sync::atomic::AtomicU64 = std::sync::atomic::AtomicU64::new(0);
        let n = N.fetch_add(1, std::sync::atomic::Ordering::Relaxed);
        let root = Path::new(crate::core::VERIF_DIR)
            .join("work")
            .join(format!("sb-{}-{}-{}", tag, std::process::id(), n));
        let _ = std::fs::remove_dir_all(&root);
        for d in ["home", "config", "data", "ws", "ws/project/src", "dicts", "filedicts"] {
            let _ = std::fs::create_dir_all(root.join(d));
        }
        Sandbox { root }
    }
    pub fn user_dict(&self) -> PathBuf {
        self.root.join("dicts/user.txt")
    }
    pub fn file_dict_dir(&self) -> PathBuf {
        self.root.join("filedicts")
    }
    pub fn stats(&self) -> PathBuf {
        self.root.join("data/stats.txt")
    }
    pub fn ws_file(&self, name: &str) -> PathBuf {
        self.root.join("ws").join(name)
    }
    pub fn uri(&self, name: &str) -> String {
        // percent-encoded the way editors send it
        let mut out = String::from("file://");
        for b in self.ws_file(name).to_string_lossy().bytes() {
            if b.is_ascii_alphanumeric() || matches!(b, b'/' | b'-' | b'.' | b'_' | b'~') {
                out.push(b as char);
            } else {
                out.push_str(&format!("%{b:02X}"));
            }
        }
        out
    }
    /// settings object answered to workspace/configuration
    pub fn settings(&self, extra: Value) -> Value {
        let mut base = json!({
            "userDictPath": self.user_dict().to_string_lossy(),
            "fileDictPath": self.file_dict_dir().to_string_lossy(),
            "statsPath": self.stats().to_string_lossy(),
        });
        if let (Some(b), Some(e)) = (base.as_object_mut(), extra.as_object()) {
            for (k, v) in e {
                b.insert(k.clone(), v.clone());
            }
        }
        json!({"harper-ls": base})
    }
}

impl Drop for Sandbox {
    fn drop(&mut self) {
        if std::env::var("HV_KEEP_SANDBOX").is_err() {
            let _ = std::fs::remove_dir_all(&self.root);
        }
    }
}

pub struct Server {
    child: Child,
    stdin: Option<ChildStdin>,
    rx: Receiver<Value>,
    next_id: i64,
    /// answer to workspace/configuration
    pub settings: Value,
    /// manual schedule mode: queue config requests instead of answering them
    pub manual: bool,
    pub pending_config: VecDeque<Value>,
    /// every publication in arrival order: (uri, diagnostics)
    pub publications: Vec<(String, Vec<Diag>)>,
    responses: HashMap<i64, Value>,
    pub config_requests_seen: usize,
    pub log: Vec<String>,
}

fn read_message(r: &mut impl BufRead) -> Option<Value> {
    let mut len = 0usize;
    loop {
        let mut line = String::new();
        if r.read_line(&mut line).ok()? == 0 {
            return None;
        }
        let line = line.trim_end();
        if line.is_empty() {
            break;
        }
        if let Some(v) = line.strip_prefix("Content-Length:") {
            len = v.trim().parse().ok()?;
        }
    }
    let mut buf = vec![0u8; len];
    r.read_exact(&mut buf).ok()?;
    serde_json::from_slice(&buf).ok()
}

impl Server {
    /// `wrapper`: optional command prefix (e.g. strace ...) put before the server binary.
    pub fn start(sb: &Sandbox, settings: Value, wrapper: Option<Vec<String>>) -> Result<Server, LspError> {
        Self::start_mode(sb, settings, wrapper, false)
    }

    pub fn start_mode(
        sb: &Sandbox,
        settings: Value,
        wrapper: Option<Vec<String>>,
        manual: bool,
    ) -> Result<Server, LspError> {
        Self::start_full(sb, settings, wrapper, manual, None)
    }

    /// `fsize_limit`: RLIMIT_FSIZE for the server process (SIGXFSZ ignored), so that a write
    /// beyond that size fails with EFBIG — a fault that hits a save part-way
    pub fn start_full(
        sb: &Sandbox,
        settings: Value,
        wrapper: Option<Vec<String>>,
        manual: bool,
        fsize_limit: Option<u64>,
    ) -> Result<Server, LspError> {
        let bin = ls_binary();
        let mut cmd = match &wrapper {
            Some(w) => {
                let mut c = Command::new(&w[0]);
                c.args(&w[1..]);
                c.arg(&bin);
                c
            }
            None => Command::new(&bin),
        };
        cmd.arg("--stdio")
            .env("HOME", sb.root.join("home"))
            .env("XDG_CONFIG_HOME", sb.root.join("config"))
            .env("XDG_DATA_HOME", sb.root.join("data"))
            .env("XDG_CACHE_HOME", sb.root.join("home/.cache"))
            .env_remove("RUST_LOG")
            // the editor was started somewhere inside the project, not in a directory that sits
            // next to the dictionaries
            .current_dir(sb.root.join("ws/project/src"))
            .stdin(Stdio::piped())
            .stdout(Stdio::piped())
            .stderr(Stdio::null());
        if let Some(limit) = fsize_limit {
            use std::os::unix::process::CommandExt;
            unsafe {
                cmd.pre_exec(move || {
                    libc::signal(libc::SIGXFSZ, libc::SIG_IGN);
                    let lim = libc::rlimit { rlim_cur: limit, rlim_max: limit };
                    libc::setrlimit(libc::RLIMIT_FSIZE, &lim);
                    Ok(())
                });
            }
        }
        let mut child = cmd
            .spawn()
            .map_err(|e| LspError::Died(format!("cannot start {}: {e}", bin.display())))?;
        let stdin = child.stdin.take().unwrap();
        let stdout = child.stdout.take().unwrap();
        let (tx, rx) = channel();
        std::thread::spawn(move || {
            let mut r = BufReader::new(stdout);
            while let Some(m) = read_message(&mut r) {
                if tx.send(m).is_err() {
                    break;
                }
            }
        });
        let mut s = Server {
            child,
            stdin: Some(stdin),
            rx,
            next_id: 1,
            settings,
            manual: false,
            pending_config: VecDeque::new(),
            publications: vec![],
            responses: HashMap::new(),
            config_requests_seen: 0,
            log: vec![],
        };
        let id = s.request(
            "initialize",
            json!({"processId": null, "rootUri": format!("file://{}", sb.root.join("ws").display()), "capabilities": {"workspace": {"configuration": true, "didChangeWatchedFiles": {"dynamicRegistration": true}}}}),
        )?;
        s.wait_response(id, Duration::from_secs(60))?;
        s.notify("initialized", json!({}))?;
        // `initialized` pulls the configuration once and registers a file watcher
        let seen = s.config_requests_seen;
        s.pump_until(Duration::from_secs(60), "initial configuration pull", |s| {
            s.config_requests_seen > seen
        })?;
        s.manual = manual;
        Ok(s)
    }

    fn send(&mut self, v: &Value) -> Result<(), LspError> {
        let body = v.to_string();
        let msg = format!("Content-Length: {}\r\n\r\n{}", body.len(), body);
        let Some(stdin) = self.stdin.as_mut() else {
            return Err(LspError::Died("stdin already closed".into()));
        };
        stdin
            .write_all(msg.as_bytes())
            .and_then(|_| stdin.flush())
            .map_err(|e| LspError::Died(format!("write failed: {e}")))
    }

    pub fn notify(&mut self, method: &str, params: Value) -> Result<(), LspError> {
        self.send(&json!({"jsonrpc": "2.0", "method": method, "params": params}))
    }

    pub fn request(&mut self, method: &str, params: Value) -> Result<i64, LspError> {
        let id = self.next_id;
        self.next_id += 1;
        self.send(&json!({"jsonrpc": "2.0", "id": id, "method": method, "params": params}))?;
        Ok(id)
    }

    pub fn request_no_params(&mut self, method: &str) -> Result<i64, LspError> {
        let id = self.next_id;
        self.next_id += 1;
        self.send(&json!({"jsonrpc": "2.0", "id": id, "method": method}))?;
        Ok(id)
    }

    fn handle(&mut self, m: Value) -> Result<(), LspError> {
        if let Some(method) = m.get("method").and_then(|x| x.as_str()) {
            match method {
                "workspace/configuration" => {
                    self.config_requests_seen += 1;
                    if self.manual {
                        self.pending_config.push_back(m["id"].clone());
                    } else {
                        let id = m["id"].clone();
                        self.answer_config_id(id)?;
                    }
                }
                "client/registerCapability" | "window/workDoneProgress/create" => {
                    let id = m["id"].clone();
                    self.send(&json!({"jsonrpc": "2.0", "id": id, "result": null}))?;
                }
                "textDocument/publishDiagnostics" => {
                    let uri = m["params"]["uri"].as_str().unwrap_or("").to_string();
                    let diags = m["params"]["diagnostics"]
                        .as_array()
                        .map(|a| a.iter().map(Diag::from_json).collect())
                        .unwrap_or_default();
                    self.publications.push((uri, diags));
                }
                "window/logMessage" | "window/showMessage" => {
                    self.log.push(m["params"]["message"].as_str().unwrap_or("").to_string());
                }
                _ => {
                    if m.get("id").is_some() {
                        // unknown request from the server: answer null so it does not block
                        let id = m["id"].clone();
                        self.send(&json!({"jsonrpc": "2.0", "id": id, "result": null}))?;
                    }
                }
            }
        } else if let Some(id) = m.get("id").and_then(|x| x.as_i64()) {
            self.responses.insert(id, m);
        }
        Ok(())
    }

    fn answer_config_id(&mut self, id: Value) -> Result<(), LspError> {
        let settings = self.settings.clone();
        self.send(&json!({"jsonrpc": "2.0", "id": id, "result": [settings]}))
    }

    /// Manual mode: answer the k-th queued configuration request (0 = oldest).
    pub fn answer_config(&mut self, k: usize) -> Result<(), LspError> {
        let Some(id) = self.pending_config.remove(k) else {
            return Err(LspError::Protocol(format!(
                "no queued configuration request #{k}"
            )));
        };
        self.answer_config_id(id)
    }

    /// Process incoming messages until `done` holds.
    pub fn pump_until(
        &mut self,
        timeout: Duration,
        what: &str,
        done: impl Fn(&Server) -> bool,
    ) -> Result<(), LspError> {
        let t0 = Instant::now();
        loop {
            if done(self) {
                return Ok(());
            }
            let left = timeout.checked_sub(t0.elapsed()).unwrap_or(Duration::ZERO);
            if left.is_zero() {
                return Err(LspError::Timeout(what.to_string()));
            }
            match self.rx.recv_timeout(left.min(Duration::from_millis(200))) {
                Ok(m) => self.handle(m)?,
                Err(RecvTimeoutError::Timeout) => {
                    if let Ok(Some(st)) = self.child.try_wait() {
                        return Err(LspError::Died(format!("{st} while waiting for {what}")));
                    }
                }
                Err(RecvTimeoutError::Disconnected) => {
                    return Err(LspError::Died(format!("stdout closed while waiting for {what}")));
                }
            }
        }
    }

    /// Drain whatever arrives within `d` (stragglers).
    pub fn settle(&mut self, d: Duration) -> Result<(), LspError> {
        let t0 = Instant::now();
        while t0.elapsed() < d {
            match self.rx.recv_timeout(d.saturating_sub(t0.elapsed()).max(Duration::from_millis(1))) {
                Ok(m) => self.handle(m)?,
                Err(RecvTimeoutError::Timeout) => break,
                Err(RecvTimeoutError::Disconnected) => break,
            }
        }
        Ok(())
    }

    pub fn wait_response(&mut self, id: i64, timeout: Duration) -> Result<Value, LspError> {
        self.pump_until(timeout, &format!("response to request {id}"), |s| {
            s.responses.contains_key(&id)
        })?;
        Ok(self.responses.remove(&id).unwrap())
    }

    pub fn publications_for(&self, uri: &str) -> usize {
        self.publications.iter().filter(|(u, _)| u == uri).count()
    }

    pub fn last_publication(&self, uri: &str) -> Option<&Vec<Diag>> {
        self.publications
            .iter()
            .rev()
            .find(|(u, _)| u == uri)
            .map(|(_, d)| d)
    }

    // ---- convenience wrappers (auto-answer mode: wait for the expected publication) ----

    pub fn open(&mut self, uri: &str, lang: &str, text: &str) -> Result<Vec<Diag>, LspError> {
        let before = self.publications_for(uri);
        self.notify(
            "textDocument/didOpen",
            json!({"textDocument": {"uri": uri, "languageId": lang, "version": 1, "text": text}}),
        )?;
        self.pump_until(Duration::from_secs(60), "publication after didOpen", |s| {
            s.publications_for(uri) > before
        })?;
        Ok(self.last_publication(uri).cloned().unwrap_or_default())
    }

    pub fn change(&mut self, uri: &str, version: i64, text: &str) -> Result<Vec<Diag>, LspError> {
        let before = self.publications_for(uri);
        self.notify(
            "textDocument/didChange",
            json!({"textDocument": {"uri": uri, "version": version}, "contentChanges": [{"text": text}]}),
        )?;
        self.pump_until(Duration::from_secs(60), "publication after didChange", |s| {
            s.publications_for(uri) > before
        })?;
        Ok(self.last_publication(uri).cloned().unwrap_or_default())
    }

    pub fn close(&mut self, uri: &str) -> Result<(), LspError> {
        let before = self.publications_for(uri);
        self.notify("textDocument/didClose", json!({"textDocument": {"uri": uri}}))?;
        self.pump_until(Duration::from_secs(60), "publication after didClose", |s| {
            s.publications_for(uri) > before
        })
    }

    pub fn execute(&mut self, command: &str, args: Value) -> Result<Value, LspError> {
        let id = self.request(
            "workspace/executeCommand",
            json!({"command": command, "arguments": args}),
        )?;
        self.wait_response(id, Duration::from_secs(60))
    }

    /// executeCommand for commands that re-check a document: the response and the publication
    /// travel on different internal channels, so wait for both.
    pub fn execute_and_publish(&mut self, command: &str, args: Value, uri: &str) -> Result<Vec<Diag>, LspError> {
        let before = self.publications_for(uri);
        self.execute(command, args)?;
        self.pump_until(Duration::from_secs(30), "publication after executeCommand", |s| {
            s.publications_for(uri) > before
        })?;
        Ok(self.last_publication(uri).cloned().unwrap_or_default())
    }

    pub fn code_actions(&mut self, uri: &str, start: (u32, u32), end: (u32, u32)) -> Result<Value, LspError> {
        let id = self.request(
            "textDocument/codeAction",
            json!({"textDocument": {"uri": uri}, "range": {"start": {"line": start.0, "character": start.1}, "end": {"line": end.0, "character": end.1}}, "context": {"diagnostics": []}}),
        )?;
        let r = self.wait_response(id, Duration::from_secs(60))?;
        Ok(r["result"].clone())
    }

    /// shutdown + exit; waits for the process to end
    pub fn shutdown(mut self) -> Result<(), LspError> {
        let id = self.request_no_params("shutdown")?;
        let resp = self.wait_response(id, Duration::from_secs(30))?;
        if resp.get("error").is_some() {
            return Err(LspError::Protocol(format!("shutdown rejected: {resp}")));
        }
        self.send(&json!({"jsonrpc": "2.0", "method": "exit"}))?;
        // the server's read loop ends when its stdin closes
        self.stdin = None;
        let t0 = Instant::now();
        while t0.elapsed() < Duration::from_secs(10) {
            if let Ok(Some(_)) = self.child.try_wait() {
                return Ok(());
            }
            std::thread::sleep(Duration::from_millis(10));
        }
        let _ = self.child.kill();
        let _ = self.child.wait();
        Ok(())
    }

    pub fn kill(mut self) {
        let _ = self.child.kill();
        let _ = self.child.wait();
    }

    pub fn pid(&self) -> u32 {
        self.child.id()
    }
}

impl Drop for Server {
    fn drop(&mut self) {
        let _ = self.child.kill();
        let _ = self.child.wait();
    }
}

/// drain a reader to a string without blocking the caller forever
pub fn read_all(mut r: impl Read) -> String {
    let mut s = String::new();
    let _ = r.read_to_string(&mut s);
    s
}
