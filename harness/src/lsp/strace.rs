//! E5 — parsing of `strace -f -y -xx -o file` output.

use std::collections::HashMap;

#[derive(Debug, Clone)]
pub struct Sys {
    pub pid: u32,
    pub name: String,
    pub args: String,
    pub ret: String,
}

impl Sys {
    /// all quoted (hex-escaped, `-xx`) strings of the argument list, decoded
    pub fn strings(&self) -> Vec<Vec<u8>> {
        let b = self.args.as_bytes();
        let mut out = vec![];
        let mut i = 0;
        while i < b.len() {
            if b[i] == b'"' {
                let mut s = vec![];
                i += 1;
                while i < b.len() && b[i] != b'"' {
                    if b[i] == b'\\' && i + 3 < b.len() && b[i + 1] == b'x' {
                        let h = std::str::from_utf8(&b[i + 2..i + 4]).unwrap_or("00");
                        s.push(u8::from_str_radix(h, 16).unwrap_or(0));
                        i += 4;
                    } else if b[i] == b'\\' && i + 1 < b.len() {
                        s.push(b[i + 1]);
                        i += 2;
                    } else {
                        s.push(b[i]);
                        i += 1;
                    }
                }
                out.push(s);
            }
            i += 1;
        }
        out
    }
    pub fn string_args(&self) -> Vec<String> {
        self.strings()
            .into_iter()
            .map(|s| String::from_utf8_lossy(&s).to_string())
            .collect()
    }
    /// `N<path>` annotations in args (fd arguments, `-y`)
    pub fn fd_paths(&self) -> Vec<(i64, String)> {
        annotations(&self.args)
    }
    /// fd annotation of the return value (openat)
    pub fn ret_fd(&self) -> Option<(i64, String)> {
        annotations(&self.ret).into_iter().next()
    }
    pub fn ret_int(&self) -> Option<i64> {
        self.ret
            .split(|c: char| !(c.is_ascii_digit() || c == '-'))
            .next()
            .and_then(|s| s.parse().ok())
    }
    /// the argument list with `\xHH` escapes decoded (addresses, paths)
    pub fn decoded_args(&self) -> String {
        decode_hex_path(&self.args)
    }
    pub fn failed(&self) -> bool {
        self.ret.trim_start().starts_with("-1")
    }
}

fn annotations(s: &str) -> Vec<(i64, String)> {
    let b = s.as_bytes();
    let mut out = vec![];
    let mut i = 0;
    let mut in_str = false;
    while i < b.len() {
        if b[i] == b'"' {
            in_str = !in_str;
            i += 1;
            continue;
        }
        if !in_str && b[i].is_ascii_digit() && (i == 0 || !(b[i - 1].is_ascii_alphanumeric() || b[i - 1] == b'_')) {
            let st = i;
            while i < b.len() && b[i].is_ascii_digit() {
                i += 1;
            }
            if i < b.len() && b[i] == b'<' {
                let ps = i + 1;
                let mut depth = 1;
                i += 1;
                while i < b.len() && depth > 0 {
                    match b[i] {
                        b'<' => depth += 1,
                        b'>' => depth -= 1,
                        _ => {}
                    }
                    i += 1;
                }
                let path = &s[ps..i - 1];
                if let Ok(fd) = s[st..ps - 1].parse() {
                    out.push((fd, decode_hex_path(path)));
                }
            }
            continue;
        }
        i += 1;
    }
    out
}

fn decode_hex_path(p: &str) -> String {
    // with -xx, annotation paths are printed raw or hex escaped depending on the strace version
    if !p.contains("\\x") {
        return p.to_string();
    }
    let b = p.as_bytes();
    let mut out = vec![];
    let mut i = 0;
    while i < b.len() {
        if b[i] == b'\\' && i + 3 < b.len() && b[i + 1] == b'x' {
            out.push(u8::from_str_radix(&p[i + 2..i + 4], 16).unwrap_or(b'?'));
            i += 4;
        } else {
            out.push(b[i]);
            i += 1;
        }
    }
    String::from_utf8_lossy(&out).to_string()
}

pub fn parse_trace(text: &str) -> Vec<Sys> {
    let mut pending: HashMap<u32, String> = HashMap::new();
    let mut out = vec![];
    for line in text.lines() {
        let line = line.trim_end();
        let Some((pid_s, rest)) = line.split_once(' ') else {
            continue;
        };
        let Ok(pid) = pid_s.trim().parse::<u32>() else {
            continue;
        };
        let rest = rest.trim_start();
        let full: String;
        if let Some(idx) = rest.find("<unfinished ...>") {
            pending.insert(pid, rest[..idx].to_string());
            continue;
        } else if rest.starts_with("<... ") {
            let Some(end) = rest.find("resumed>") else {
                continue;
            };
            let head = pending.remove(&pid).unwrap_or_default();
            full = format!("{}{}", head, &rest[end + "resumed>".len()..]);
        } else {
            full = rest.to_string();
        }
        if full.starts_with("+++") || full.starts_with("---") {
            continue;
        }
        let Some(open) = full.find('(') else {
            continue;
        };
        let name = full[..open].trim().to_string();
        // the return value follows the last " = "
        let Some(eq) = full.rfind(" = ") else {
            continue;
        };
        let args_end = full[..eq].rfind(')').unwrap_or(eq);
        if args_end <= open {
            continue;
        }
        out.push(Sys {
            pid,
            name,
            args: full[open + 1..args_end].to_string(),
            ret: full[eq + 3..].to_string(),
        });
    }
    out
}

pub fn strace_wrapper(out_file: &std::path::Path, trace: &str) -> Vec<String> {
    vec![
        "strace".into(),
        "-f".into(),
        "-y".into(),
        "-xx".into(),
        "-s".into(),
        "4000000".into(),
        "-o".into(),
        out_file.to_string_lossy().to_string(),
        "-e".into(),
        format!("trace={trace}"),
    ]
}
