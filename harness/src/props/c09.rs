//! C09 — the language server's last word on a document reflects the latest text.
//!
//! The harness is the LSP client of the real harper-ls and owns the schedule: every document
//! update awaits a `workspace/configuration` round trip, so the order in which the client
//! answers those requests is the order in which the in-flight handlers complete.

use std::collections::BTreeMap;
use std::time::Duration;

use proptest::prelude::*;
use serde::{Deserialize, Serialize};
use serde_json::{Value, json};

use crate::core::{CaseCtx, Run, mix};
use crate::lsp::{Diag, LspError, Sandbox, Server};

pub const KF_STALE: &str = "KF-C09-stale-handler-wins";
pub const KF_DISK: &str = "KF-C09-disk-reread-on-save-and-commands";
pub const KF_OTHER: &str = "KF-C09-user-dictionary-add-refreshes-one-document";
pub const KF_UNTITLED: &str = "KF-C09-untitled-documents-cannot-be-refreshed";

/// (name or uri, language id, file-backed)
const DOCS: [(&str, &str, bool); 4] = [
    ("a.md", "markdown", true),
    // a name that a `file:` URI has to escape
    ("b \u{e9} #1.txt", "plaintext", true),
    ("sub/c.rs", "rust", true),
    ("untitled:Untitled-1", "plaintext", false),
];

const TEXTS: &[&str] = &[
    "This is an test.\n",
    "Their is teh problem here.\n",
    "A apple a day keeps teh doctor away.\n\nI could of gone.\n",
    "This is fine.\n",
    "We like the frobnix very much.\n",
    "Is qwertzu here? This is an problem.\n",
    "The the cat sat.\n\nAn second paragraph with zorblaxy in it.\n",
    "",
    "Say hello to my wibblet, an friend.\n",
    // dialect-dependent spellings
    "The colour of the neighbour's car is grey.\n",
    "We realize the color of the center is gray.\n",
];

const CONFIGS: &[&str] = &[
    "{}",
    r#"{"linters": {"SpellCheck": false}}"#,
    r#"{"linters": {"AnA": false, "RepeatedWords": false}}"#,
    r#"{"dialect": "British"}"#,
    r#"{"diagnosticSeverity": "warning"}"#,
    r#"{"isolateEnglish": true}"#,
    r#"{"linters": {"SpelledNumbers": true}, "diagnosticSeverity": "error"}"#,
];

#[derive(Debug, Clone, Serialize, Deserialize, PartialEq, Eq, Hash)]
pub enum Op {
    Open { doc: u8, text: u8 },
    Change { doc: u8, text: u8 },
    Save { doc: u8 },
    Close { doc: u8 },
    Delete { doc: u8 },
    AddUser { doc: u8 },
    AddFile { doc: u8 },
    Ignore { doc: u8, sel: u8 },
    Record,
    Config { idx: u8 },
    /// the user edits the user-dictionary file on disk (then every open document is re-checked)
    EditUserDict { variant: u8 },
    /// the client's settings change; before the notification about it arrives, an edit of one
    /// document makes the server pull the (already new) settings
    ConfigAfterPull { idx: u8, doc: u8 },
    /// the directory holding document 2 is deleted; the client reports the directory, with or
    /// without a trailing slash
    DeleteDir { slash: bool },
    /// something else in the workspace is deleted whose path is a proper prefix of an open
    /// document's path without being its parent: `a` next to `a.md`, `sub/c` next to `sub/c.rs`,
    /// directory `su` next to `sub/`. No document is affected.
    DeleteOther { which: u8 },
}

const OTHER_PATHS: &[&str] = &["a", "sub/c", "su", "b \u{e9} #1.tx", "sub/c.r"];

const DICT_VARIANTS: &[&str] = &["", "frobnix\n", "Frobnix\n", "FROBNIX\nqwertzu\n", "frobnix\nzorblaxy\nwibblet\n", "Wibblet\nzorblaxy", "qwertzu\n"];

#[derive(Debug, Clone, Serialize, Deserialize, PartialEq, Eq, Hash)]
pub struct History {
    pub batches: Vec<(Vec<Op>, u64)>,
}

fn doc_of(op: &Op) -> Option<usize> {
    match op {
        Op::Open { doc, .. } | Op::Change { doc, .. } | Op::Save { doc } | Op::Close { doc } | Op::Delete { doc }
        | Op::AddUser { doc } | Op::AddFile { doc } | Op::Ignore { doc, .. } => Some(*doc as usize % DOCS.len()),
        Op::DeleteDir { .. } => Some(2),
        _ => None,
    }
}

fn comment_wrap(lang: &str, text: &str) -> String {
    if lang == "rust" {
        text.lines().map(|l| format!("// {l}\n")).collect()
    } else {
        text.to_string()
    }
}

#[derive(Clone, Default)]
struct DocModel {
    open: bool,
    text: String,
    /// messages of ignored diagnostics; `exact` while the text is unchanged since the ignore
    ignored: Vec<Diag>,
    text_changed_since_ignore: bool,
    /// document version as the editor counts it: 1 at didOpen, +1 with every change
    version: i64,
}

struct World {
    sb: Sandbox,
    s: Server,
    r: Server,
    docs: Vec<DocModel>,
    version: i64,
    config_idx: usize,
    /// highest version ever sent per document URI (versions restart when a document is re-opened)
    max_versions: [i64; 4],
}

impl World {
    fn uri(&self, i: usize) -> String {
        if DOCS[i].2 {
            self.sb.uri(DOCS[i].0)
        } else {
            DOCS[i].0.to_string()
        }
    }
    fn write_disk(&self, i: usize) -> Result<(), LspError> {
        if DOCS[i].2 {
            if let Some(dir) = self.sb.ws_file(DOCS[i].0).parent() {
                let _ = std::fs::create_dir_all(dir);
            }
            std::fs::write(self.sb.ws_file(DOCS[i].0), &self.docs[i].text).map_err(|e| LspError::Protocol(e.to_string()))?;
        }
        Ok(())
    }
    /// what a trivially sequential run publishes for the newest text of document i
    fn reference(&mut self, i: usize) -> Result<Vec<Diag>, LspError> {
        let uri = self.uri(i);
        let d = self.r.open(&uri, DOCS[i].1, &self.docs[i].text.clone())?;
        self.r.close(&uri)?;
        Ok(d)
    }
}

fn keys(d: &[Diag]) -> Vec<String> {
    let mut v: Vec<String> = d.iter().map(|d| d.key()).collect();
    v.sort();
    v
}

fn settings_for(sb: &Sandbox, idx: usize) -> Value {
    sb.settings(serde_json::from_str(CONFIGS[idx % CONFIGS.len()]).unwrap_or(json!({})))
}

fn new_world() -> Result<World, LspError> {
    let sb = Sandbox::new("c09");
    let settings = settings_for(&sb, 0);
    let s = Server::start_mode(&sb, settings.clone(), None, true)?;
    let r = Server::start(&sb, settings, None)?;
    Ok(World {
        sb,
        s,
        r,
        docs: vec![DocModel::default(); DOCS.len()],
        version: 1,
        config_idx: 0,
        max_versions: [0; 4],
    })
}

/// spelling word of the first spelling diagnostic of doc i (what a code action would send)
fn flagged_word(text: &str, d: &[Diag]) -> Option<String> {
    use crate::oracle::lsp_pos::{Pos, pos_to_index};
    let c: Vec<char> = text.chars().collect();
    d.iter().find(|d| d.message.starts_with("Did you mean")).map(|d| {
        let s = pos_to_index(&c, Pos { line: d.start.0, col: d.start.1 });
        let e = pos_to_index(&c, Pos { line: d.end.0, col: d.end.1 });
        c[s..e.max(s)].iter().collect()
    })
}

/// Keep the must-hold sub-space: at most one op per document in a batch, global ops alone, ops
/// applicable to the model state.
fn normalise(batch: &[Op], w: &World) -> Vec<Op> {
    let mut out: Vec<Op> = vec![];
    let mut used = [false; 4];
    for op in batch {
        let global = matches!(op, Op::Config { .. } | Op::ConfigAfterPull { .. } | Op::AddUser { .. } | Op::AddFile { .. } | Op::EditUserDict { .. });
        if global {
            // only when it can stand alone
            let applicable = match op {
                // open finding KF-C09-untitled: a configuration change cannot refresh an untitled buffer
                // open finding KF-C09-untitled: an untitled buffer cannot be re-read, so a change
                // of how documents are *parsed* does not reach it; switching rules or the dialect
                // only replaces the linter and must work for such buffers too
                Op::Config { idx } | Op::ConfigAfterPull { idx, .. } => {
                    let untitled_open = (0..DOCS.len()).any(|i| !DOCS[i].2 && w.docs[i].open);
                    let parses = |i: usize| CONFIGS[i % CONFIGS.len()].contains("isolateEnglish");
                    !(untitled_open && parses(w.config_idx) != parses(*idx as usize))
                }
                Op::EditUserDict { .. } => true,
                Op::AddUser { doc } | Op::AddFile { doc } => {
                    let i = *doc as usize % DOCS.len();
                    DOCS[i].2 && w.docs[i].open
                }
                _ => false,
            };
            if applicable && out.is_empty() {
                if let Op::Config { .. } = op {
                    // a configuration change may race with closes / deletes of open documents
                    // (not with text updates: that is the disk re-read finding)
                    let mut v = vec![op.clone()];
                    let mut seen = [false; 4];
                    for o in batch {
                        if let Op::Close { doc } | Op::Delete { doc } = o {
                            let i = *doc as usize % DOCS.len();
                            if !seen[i] && w.docs[i].open && DOCS[i].2 && v.len() < 4 {
                                seen[i] = true;
                                v.push(Op::Close { doc: *doc });
                            }
                        }
                    }
                    return v;
                }
                return vec![op.clone()];
            }
            continue;
        }
        if let Some(i) = doc_of(op) {
            if used[i] {
                continue;
            }
            let ok = match op {
                Op::Open { .. } => !w.docs[i].open,
                Op::Change { .. } | Op::Close { .. } | Op::Ignore { .. } => w.docs[i].open,
                Op::Save { .. } => w.docs[i].open && DOCS[i].2,
                Op::Delete { .. } | Op::DeleteDir { .. } => DOCS[i].2,
                _ => true,
            };
            if ok {
                used[i] = true;
                out.push(op.clone());
            }
        } else {
            out.push(op.clone());
        }
        if out.len() == 4 {
            break;
        }
    }
    out
}

const T: Duration = Duration::from_secs(40);
/// how long an expected publication is waited for before the server is probed for idleness
const TP: Duration = Duration::from_secs(15);

fn exec_batch(w: &mut World, batch: &[Op], salt: u64, ctx: &mut CaseCtx) -> Result<Result<(), String>, LspError> {
    // ops that re-read the file from disk are issued with buffer == disk (must-hold sub-space)
    for op in batch {
        match op {
            Op::Save { doc } | Op::AddUser { doc } | Op::AddFile { doc } => w.write_disk(*doc as usize % DOCS.len())?,
            Op::Config { .. } | Op::ConfigAfterPull { .. } => {
                for i in 0..DOCS.len() {
                    if w.docs[i].open {
                        w.write_disk(i)?;
                    }
                }
            }
            _ => {}
        }
    }
    let uris: Vec<String> = (0..DOCS.len()).map(|i| w.uri(i)).collect();
    let before: Vec<usize> = uris.iter().map(|u| w.s.publications_for(u)).collect();
    let mut expect_pubs = vec![0usize; DOCS.len()];
    // (op index, doc index) of ops that will issue a configuration request, in arrival order
    let mut cfg_ops: Vec<(usize, usize)> = vec![];
    let mut responses: Vec<i64> = vec![];
    // publications of ops that do not wait for a configuration answer
    let mut immediate_pubs = 0usize;
    // documents whose deletion was reported through their directory
    let mut must_clear: Vec<usize> = vec![];
    let config_with_closes = batch.len() >= 2 && matches!(batch[0], Op::Config { .. });
    if config_with_closes {
        return exec_config_with_closes(w, batch, salt, ctx);
    }
    let single_global = batch.len() == 1 && matches!(batch[0], Op::Config { .. } | Op::ConfigAfterPull { .. } | Op::AddUser { .. } | Op::AddFile { .. } | Op::EditUserDict { .. });
    // pre-pass (nothing of the batch is in flight yet): the lint JSON an editor would send with
    // HarperIgnoreLint comes from a code action
    let mut ignore_args: BTreeMap<usize, (Diag, Value)> = BTreeMap::new();
    w.s.manual = false;
    for (k, op) in batch.iter().enumerate() {
        if let Op::Ignore { doc, sel } = op {
            let i = *doc as usize % DOCS.len();
            let cur = w.s.last_publication(&uris[i]).cloned().unwrap_or_default();
            if cur.is_empty() {
                continue;
            }
            let d = cur[*sel as usize % cur.len()].clone();
            let acts = w.s.code_actions(&uris[i], d.start, d.end)?;
            let lint = acts.as_array().and_then(|a| {
                a.iter().find(|x| x["command"].as_str() == Some("HarperIgnoreLint") && x["arguments"][1]["message"].as_str() == Some(d.message.as_str()))
            }).map(|x| x["arguments"][1].clone());
            if let Some(lint) = lint {
                ignore_args.insert(k, (d, lint));
            }
        }
    }
    w.s.manual = !single_global;

    for (k, op) in batch.iter().enumerate() {
        match op {
            Op::Open { doc, text } => {
                let i = *doc as usize % DOCS.len();
                let t = comment_wrap(DOCS[i].1, TEXTS[*text as usize % TEXTS.len()]);
                w.docs[i] = DocModel { open: true, text: t.clone(), version: 1, ..Default::default() };
                w.s.notify("textDocument/didOpen", json!({"textDocument": {"uri": uris[i], "languageId": DOCS[i].1, "version": 1, "text": t}}))?;
                expect_pubs[i] += 1;
                cfg_ops.push((k, i));
            }
            Op::Change { doc, text } => {
                let i = *doc as usize % DOCS.len();
                let t = comment_wrap(DOCS[i].1, TEXTS[*text as usize % TEXTS.len()]);
                if w.docs[i].text != t {
                    w.docs[i].text_changed_since_ignore = true;
                }
                w.docs[i].text = t.clone();
                w.docs[i].version += 1;
                if w.docs[i].version <= w.max_versions[i] {
                    ctx.class("change_with_a_version_already_used_before_the_document_was_reopened");
                }
                w.max_versions[i] = w.max_versions[i].max(w.docs[i].version);
                // a client that coalesces edits sends several whole-document changes in one
                // notification; they apply in order, the last one is the buffer
                let changes = if *text >= 160 {
                    ctx.class("change_notification_with_several_content_changes");
                    let earlier = comment_wrap(DOCS[i].1, TEXTS[(*text as usize / 7) % TEXTS.len()]);
                    json!([{"text": earlier}, {"text": t}])
                } else {
                    json!([{"text": t}])
                };
                w.s.notify("textDocument/didChange", json!({"textDocument": {"uri": uris[i], "version": w.docs[i].version}, "contentChanges": changes}))?;
                expect_pubs[i] += 1;
                cfg_ops.push((k, i));
            }
            Op::Save { doc } => {
                let i = *doc as usize % DOCS.len();
                w.s.notify("textDocument/didSave", json!({"textDocument": {"uri": uris[i]}}))?;
                expect_pubs[i] += 1;
                cfg_ops.push((k, i));
            }
            Op::Close { doc } => {
                let i = *doc as usize % DOCS.len();
                w.docs[i].open = false;
                w.docs[i].ignored.clear();
                w.s.notify("textDocument/didClose", json!({"textDocument": {"uri": uris[i]}}))?;
                expect_pubs[i] += 1;
                immediate_pubs += 1;
            }
            Op::Delete { doc } => {
                let i = *doc as usize % DOCS.len();
                let _ = std::fs::remove_file(w.sb.ws_file(DOCS[i].0));
                if w.docs[i].open {
                    expect_pubs[i] += 1;
                    immediate_pubs += 1;
                }
                w.docs[i].open = false;
                w.docs[i].ignored.clear();
                w.s.notify("workspace/didChangeWatchedFiles", json!({"changes": [{"uri": uris[i], "type": 3}]}))?;
            }
            Op::DeleteDir { slash } => {
                let i = 2;
                let dir = w.sb.ws_file("sub");
                let _ = std::fs::remove_dir_all(&dir);
                if w.docs[i].open {
                    // not counted among the publications to wait for: if the server never clears
                    // the diagnostics, that is a finding of the oracle below, not a stalled run
                    must_clear.push(i);
                }
                w.docs[i].open = false;
                w.docs[i].ignored.clear();
                let uri = format!("file://{}{}", dir.display(), if *slash { "/" } else { "" });
                w.s.notify("workspace/didChangeWatchedFiles", json!({"changes": [{"uri": uri, "type": 3}]}))?;
            }
            Op::DeleteOther { which } => {
                let p = w.sb.ws_file(OTHER_PATHS[*which as usize % OTHER_PATHS.len()]);
                let uri = w.sb.uri(OTHER_PATHS[*which as usize % OTHER_PATHS.len()]);
                let _ = p;
                w.s.notify("workspace/didChangeWatchedFiles", json!({"changes": [{"uri": uri, "type": 3}]}))?;
                // nothing to wait for: no document is affected; a wrong publication shows in the
                // comparison after the batch. A request behind it makes sure it was processed.
                let id = w.s.request("workspace/executeCommand", json!({"command": "HarperRecordLint", "arguments": ["{\"LintConfigUpdate\":{}}"]}))?;
                responses.push(id);
            }
            Op::Ignore { doc, .. } => {
                let i = *doc as usize % DOCS.len();
                let Some((d, lint)) = ignore_args.remove(&k) else { continue };
                w.docs[i].ignored.push(d);
                w.docs[i].text_changed_since_ignore = false;
                let id = w.s.request("workspace/executeCommand", json!({"command": "HarperIgnoreLint", "arguments": [uris[i], lint]}))?;
                responses.push(id);
                expect_pubs[i] += 1;
                immediate_pubs += 1;
            }
            Op::Record => {
                let id = w.s.request("workspace/executeCommand", json!({"command": "HarperRecordLint", "arguments": ["{\"LintConfigUpdate\":{}}"]}))?;
                responses.push(id);
            }
            Op::AddUser { doc } | Op::AddFile { doc } => {
                let i = *doc as usize % DOCS.len();
                let cur = w.s.last_publication(&uris[i]).cloned().unwrap_or_default();
                let Some(word) = flagged_word(&w.docs[i].text, &cur) else { continue };
                note_dictionary_change(w);
                let user = matches!(op, Op::AddUser { .. });
                if user {
                    // must-hold sub-space: the word does not occur in another open document
                    let lw = word.to_lowercase();
                    if (0..DOCS.len()).any(|j| j != i && w.docs[j].open && w.docs[j].text.to_lowercase().contains(&lw)) {
                        ctx.class("excluded_word_in_other_open_document");
                        continue;
                    }
                }
                let cmd = if user { "HarperAddToUserDict" } else { "HarperAddToFileDict" };
                let id = w.s.request("workspace/executeCommand", json!({"command": cmd, "arguments": [word, uris[i]]}))?;
                responses.push(id);
                expect_pubs[i] += 1;
            }
            Op::EditUserDict { variant } => {
                let content = DICT_VARIANTS[*variant as usize % DICT_VARIANTS.len()];
                let _ = std::fs::create_dir_all(w.sb.user_dict().parent().unwrap());
                std::fs::write(w.sb.user_dict(), content).map_err(|e| LspError::Protocol(e.to_string()))?;
                // every open document is re-checked (same text): auto-answer mode, one at a time
                for i in 0..DOCS.len() {
                    if w.docs[i].open {
                        w.docs[i].version += 1;
                        let (uri, t, v) = (uris[i].clone(), w.docs[i].text.clone(), w.docs[i].version);
                        w.s.change(&uri, v, &t)?;
                    }
                }
                ctx.class("user_dictionary_file_edited");
                note_dictionary_change(w);
            }
            Op::ConfigAfterPull { idx, doc } => {
                note_config_change(w, *idx as usize % CONFIGS.len());
                w.config_idx = *idx as usize % CONFIGS.len();
                let settings = settings_for(&w.sb, w.config_idx);
                // from now on the client answers configuration requests with the new settings
                w.s.settings = settings.clone();
                let fresh = Server::start(&w.sb, settings.clone(), None)?;
                let old = std::mem::replace(&mut w.r, fresh);
                let _ = old.shutdown();
                // an edit (same text, new version) reaches the server first and pulls them
                let j = (0..DOCS.len()).map(|k| (*doc as usize + k) % DOCS.len()).find(|&j| w.docs[j].open && DOCS[j].2);
                if let Some(j) = j {
                    w.docs[j].version += 1;
                    let pubs = w.s.publications_for(&uris[j]);
                    w.s.notify("textDocument/didChange", json!({"textDocument": {"uri": uris[j], "version": w.docs[j].version}, "contentChanges": [{"text": w.docs[j].text}]}))?;
                    let u = uris[j].clone();
                    w.s.pump_until(T, "publication of the edit that precedes the configuration notification", |s| s.publications_for(&u) > pubs)?;
                    expect_pubs[j] += 1;
                    ctx.class("settings_pulled_before_the_change_notification");
                }
                w.s.notify("workspace/didChangeConfiguration", json!({"settings": settings}))?;
                for i in 0..DOCS.len() {
                    if w.docs[i].open {
                        expect_pubs[i] += 1;
                    }
                }
            }
            Op::Config { idx } => {
                if (0..DOCS.len()).any(|i| !DOCS[i].2 && w.docs[i].open) {
                    ctx.class("configuration_change_with_an_untitled_buffer_open");
                }
                note_config_change(w, *idx as usize % CONFIGS.len());
                w.config_idx = *idx as usize % CONFIGS.len();
                let settings = settings_for(&w.sb, w.config_idx);
                w.s.settings = settings.clone();
                // the reference is a *fresh* server that only ever saw the final settings
                let fresh = Server::start(&w.sb, settings.clone(), None)?;
                let old = std::mem::replace(&mut w.r, fresh);
                let _ = old.shutdown();
                w.s.notify("workspace/didChangeConfiguration", json!({"settings": settings}))?;
                for i in 0..DOCS.len() {
                    if w.docs[i].open {
                        expect_pubs[i] += 1;
                    }
                }
            }
        }
    }

    // schedule: answer the queued configuration requests in a generated order; each answer lets
    // exactly that handler run to completion
    if w.s.manual {
        let k = cfg_ops.len();
        let total_before: usize = before.iter().sum();
        w.s.pump_until(T, "configuration requests of the batch", |s| s.pending_config.len() >= k)?;
        // ops that need no configuration answer complete on their own
        w.s.pump_until(T, "publications of the ops that need no configuration answer", |s| s.publications.len() >= total_before + immediate_pubs || s.publications.iter().filter(|(u, _)| uris.contains(u)).count() >= total_before + immediate_pubs)?;
        let mut left = k;
        let mut step = 0u64;
        let mut out_of_order = false;
        while left > 0 {
            let pick = (mix(salt, step) % left as u64) as usize;
            step += 1;
            out_of_order |= pick != 0;
            let pubs = w.s.publications.len();
            w.s.answer_config(pick)?;
            // the handler whose request was answered runs to completion and publishes
            w.s.pump_until(T, "publication of the handler whose configuration request was answered", |s| s.publications.len() > pubs)?;
            left -= 1;
        }
        ctx.class_if(k >= 2 && out_of_order, "handlers_completed_out_of_arrival_order");
        ctx.class_if(k >= 2, "two_or_more_handlers_in_flight");
    }
    for id in responses {
        w.s.wait_response(id, T)?;
    }
    for &i in &must_clear {
        let want = before[i] + expect_pubs[i] + 1;
        let uri = uris[i].clone();
        // two later requests answered and five seconds gone: the server is idle
        for _ in 0..2 {
            let id = w.s.request("workspace/executeCommand", json!({"command": "HarperRecordLint", "arguments": ["{\"LintConfigUpdate\":{}}"]}))?;
            let _ = w.s.wait_response(id, T);
            match w.s.pump_until(Duration::from_millis(2500), "empty publication for a document below a deleted directory", |s| s.publications_for(&uri) >= want) {
                Ok(()) => break,
                Err(LspError::Timeout(_)) => {}
                Err(e) => return Err(e),
            }
        }
    }
    for i in 0..DOCS.len() {
        let want = before[i] + expect_pubs[i];
        let uri = uris[i].clone();
        match w.s.pump_until(TP, "expected publications of the batch", |s| s.publications_for(&uri) >= want) {
            Ok(()) => {}
            // No handler is waiting for an answer of ours and the server answers later requests:
            // it has said its last word. Whether that word is right is for the oracle below.
            Err(LspError::Timeout(t)) => {
                if !idle_barrier(&mut w.s)? {
                    return Err(LspError::Timeout(t));
                }
                ctx.class("expected_publication_missing_on_an_idle_server");
                // an idle server sends nothing more: no point in waiting for the other documents
                break;
            }
            Err(e) => return Err(e),
        }
    }
    w.s.settle(Duration::from_millis(30))?;
    w.s.manual = true;

    // oracle
    for i in 0..DOCS.len() {
        let Some(last) = w.s.last_publication(&uris[i]).cloned() else { continue };
        if !w.docs[i].open {
            if !last.is_empty() {
                return Ok(Err(format!(
                    "document {} is closed/deleted but its most recent publication has {} diagnostics: {:?}",
                    DOCS[i].0, last.len(), keys(&last)
                )));
            }
            continue;
        }
        let fresh = w.reference(i)?;
        let ign = &w.docs[i].ignored;
        if ign.is_empty() {
            if keys(&last) != keys(&fresh) {
                return Ok(Err(format!(
                    "document {} ({}): most recent publication {:?} differs from what a fresh sequential server publishes for its newest text {:?} under the current configuration #{} : {:?}",
                    DOCS[i].0, DOCS[i].1, keys(&last), w.docs[i].text, w.config_idx, keys(&fresh)
                )));
            }
        } else if !w.docs[i].text_changed_since_ignore {
            let mut want = fresh.clone();
            for g in ign {
                // the severity may have changed with the settings since the lint was ignored
                if let Some(p) = want.iter().position(|d| d.start == g.start && d.end == g.end && d.message == g.message) {
                    want.remove(p);
                }
            }
            if keys(&last) != keys(&want) {
                return Ok(Err(format!(
                    "document {}: after ignoring {:?} the publication is {:?}, expected {:?}",
                    DOCS[i].0, keys(ign), keys(&last), keys(&want)
                )));
            }
        } else {
            // text changed after an ignore: published must lie between fresh minus same-message lints and fresh
            let fk = keys(&fresh);
            if let Some(extra) = keys(&last).iter().find(|k| !fk.contains(k)) {
                return Ok(Err(format!("document {}: published diagnostic {extra:?} is not a diagnostic of its newest text", DOCS[i].0)));
            }
            let lk = keys(&last);
            for d in &fresh {
                if !lk.contains(&d.key()) && !ign.iter().any(|g| g.message == d.message) {
                    return Ok(Err(format!("document {}: diagnostic {:?} of its newest text is missing from the last publication", DOCS[i].0, d.key())));
                }
            }
        }
    }
    Ok(Ok(()))
}

/// didChangeConfiguration in flight together with closes: the refresh loop of the configuration
/// handler awaits one configuration answer per document while the closes complete at once.
fn exec_config_with_closes(w: &mut World, batch: &[Op], salt: u64, ctx: &mut CaseCtx) -> Result<Result<(), String>, LspError> {
    let Op::Config { idx } = &batch[0] else { return Ok(Ok(())) };
    for i in 0..DOCS.len() {
        if w.docs[i].open {
            w.write_disk(i)?;
        }
    }
    let uris: Vec<String> = (0..DOCS.len()).map(|i| w.uri(i)).collect();
    w.config_idx = *idx as usize % CONFIGS.len();
    let settings = settings_for(&w.sb, w.config_idx);
    w.s.settings = settings.clone();
    let fresh = Server::start(&w.sb, settings.clone(), None)?;
    let old = std::mem::replace(&mut w.r, fresh);
    let _ = old.shutdown();
    w.s.manual = true;
    let closing: Vec<usize> = batch[1..].iter().filter_map(|o| if let Op::Close { doc } = o { Some(*doc as usize % DOCS.len()) } else { None }).collect();
    let before: Vec<usize> = uris.iter().map(|u| w.s.publications_for(u)).collect();
    // the closes are sent right behind the configuration change, or (salt) in front of it
    let config_first = salt & 1 == 0;
    if config_first {
        w.s.notify("workspace/didChangeConfiguration", json!({"settings": settings}))?;
    }
    for &i in &closing {
        w.s.notify("textDocument/didClose", json!({"textDocument": {"uri": uris[i]}}))?;
        w.docs[i].open = false;
        w.docs[i].ignored.clear();
    }
    if !config_first {
        w.s.notify("workspace/didChangeConfiguration", json!({"settings": settings}))?;
    }
    // every document that stays open is refreshed exactly once; answer requests as they come
    let staying: Vec<usize> = (0..DOCS.len()).filter(|i| w.docs[*i].open).collect();
    let done = |s: &Server| staying.iter().all(|&i| s.publications_for(&uris[i]) > before[i]);
    let mut guard = 0;
    while !done(&w.s) && guard < 16 {
        guard += 1;
        match w.s.pump_until(TP, "configuration request of the refresh loop", |s| !s.pending_config.is_empty() || done(s)) {
            Ok(()) => {}
            Err(LspError::Timeout(t)) => {
                if !idle_barrier(&mut w.s)? {
                    return Err(LspError::Timeout(t));
                }
                ctx.class("expected_publication_missing_on_an_idle_server");
                break;
            }
            Err(e) => return Err(e),
        }
        if w.s.pending_config.is_empty() {
            break;
        }
        let pubs = w.s.publications.len();
        w.s.answer_config(0)?;
        w.s.pump_until(T, "publication after a configuration answer", |s| s.publications.len() > pubs)?;
    }
    for &i in &closing {
        let (u, b) = (uris[i].clone(), before[i]);
        w.s.pump_until(T, "publication of the close", |s| s.publications_for(&u) > b)?;
    }
    // a refresh of a document that was closed meanwhile may still be under way
    for _ in 0..4 {
        w.s.settle(Duration::from_millis(300))?;
        if w.s.pending_config.is_empty() {
            break;
        }
        let pubs = w.s.publications.len();
        w.s.answer_config(0)?;
        w.s.pump_until(T, "publication after a late configuration answer", |s| s.publications.len() > pubs)?;
    }
    ctx.class("configuration_change_racing_with_close");
    check_publications(w, &uris)
}

/// After a wait for a publication timed out: is the server idle? True when no handler waits for a
/// configuration answer and two further requests are answered, 2.5 s apart.
fn idle_barrier(s: &mut Server) -> Result<bool, LspError> {
    for _ in 0..2 {
        if !s.pending_config.is_empty() {
            return Ok(false);
        }
        let id = s.request("workspace/executeCommand", json!({"command": "HarperRecordLint", "arguments": ["{\"LintConfigUpdate\":{}}"]}))?;
        match s.wait_response(id, T) {
            Ok(_) => {}
            Err(LspError::Timeout(_)) => return Ok(false),
            Err(e) => return Err(e),
        }
        s.settle(Duration::from_millis(2500))?;
    }
    Ok(s.pending_config.is_empty())
}

fn check_publications(w: &mut World, uris: &[String]) -> Result<Result<(), String>, LspError> {
    for i in 0..DOCS.len() {
        let Some(last) = w.s.last_publication(&uris[i]).cloned() else { continue };
        if !w.docs[i].open {
            if !last.is_empty() {
                return Ok(Err(format!(
                    "document {} is closed but its most recent publication has {} diagnostics: {:?}",
                    DOCS[i].0, last.len(), keys(&last)
                )));
            }
            continue;
        }
        if w.docs[i].ignored.is_empty() {
            let fresh = w.reference(i)?;
            if keys(&last) != keys(&fresh) {
                return Ok(Err(format!(
                    "document {} ({}): most recent publication {:?} differs from what a fresh server publishes for its newest text under the current configuration #{}: {:?}",
                    DOCS[i].0, DOCS[i].1, keys(&last), w.config_idx, keys(&fresh)
                )));
            }
        }
    }
    Ok(Ok(()))
}

/// A configuration change that alters how documents are tokenised (isolateEnglish) changes the
/// neighbourhood of lints: a lint ignored before it may legitimately count as another lint
/// afterwards (C14 defines the identity by the surrounding tokens), so from then on the ignored
/// lints are only bounded, as after a text change.
/// The ignore list identifies a lint by the tokens around it *including their dictionary
/// metadata* (a word the dictionary knows is another token kind than an unknown word). When the
/// dictionary changes, an ignored lint may therefore count as another lint; from then on the
/// ignored lints are only bounded, as after a text change.
fn note_dictionary_change(w: &mut World) {
    for d in w.docs.iter_mut() {
        if !d.ignored.is_empty() {
            d.text_changed_since_ignore = true;
        }
    }
}

fn note_config_change(w: &mut World, new_idx: usize) {
    let parses_differently = |i: usize| CONFIGS[i].contains("isolateEnglish");
    if parses_differently(w.config_idx) != parses_differently(new_idx) {
        for d in w.docs.iter_mut() {
            if !d.ignored.is_empty() {
                d.text_changed_since_ignore = true;
            }
        }
    }
}

pub fn test_history(h: &History, ctx: &mut CaseCtx) -> Result<(), String> {
    let r = (|| -> Result<Result<(), String>, LspError> {
        let mut w = new_world()?;
        let mut res = Ok(());
        let mut closes_racing = false;
        for (bi, (batch, salt)) in h.batches.iter().enumerate() {
            let b = normalise(batch, &w);
            if b.is_empty() {
                continue;
            }
            closes_racing |= b.len() >= 2 && b.iter().any(|o| matches!(o, Op::Close { .. } | Op::Delete { .. }));
            if b.iter().any(|o| matches!(o, Op::DeleteOther { .. })) && w.docs.iter().any(|d| d.open) {
                ctx.class("deletion_of_a_path_that_prefixes_an_open_document");
            }
            if b.iter().any(|o| matches!(o, Op::DeleteDir { .. })) && w.docs[2].open {
                ctx.class("directory_of_an_open_document_deleted");
            }
            let t0 = std::time::Instant::now();
            let r = exec_batch(&mut w, &b, *salt, ctx);
            if std::env::var("HV_VERBOSE").is_ok() {
                eprintln!("batch {bi} {:?} took {:?} -> {:?}", b, t0.elapsed(), r.as_ref().map(|x| x.is_ok()).map_err(|e| e.to_string()));
            }
            match r? {
                Ok(()) => {}
                Err(e) => {
                    res = Err(format!("after batch {bi} {:?}: {e}", b));
                    break;
                }
            }
        }
        ctx.class_if(closes_racing, "close_or_delete_in_a_concurrent_batch");
        let World { s, r, .. } = w;
        let _ = s.shutdown();
        let _ = r.shutdown();
        Ok(res)
    })();
    match r {
        Ok(r) => {
            if ctx.classes.iter().any(|c| c == "handlers_completed_out_of_arrival_order" || c == "close_or_delete_in_a_concurrent_batch") {
                ctx.nontrivial(h);
            }
            r
        }
        Err(e) => {
            ctx.infra(e);
            Ok(())
        }
    }
}

fn op() -> BoxedStrategy<Op> {
    prop_oneof![
        5 => (0u8..4, any::<u8>()).prop_map(|(doc, text)| Op::Open { doc, text }),
        6 => (0u8..4, any::<u8>()).prop_map(|(doc, text)| Op::Change { doc, text }),
        2 => (0u8..4).prop_map(|doc| Op::Save { doc }),
        2 => (0u8..4).prop_map(|doc| Op::Close { doc }),
        1 => (0u8..4).prop_map(|doc| Op::Delete { doc }),
        1 => (0u8..4).prop_map(|doc| Op::AddUser { doc }),
        1 => (0u8..4).prop_map(|doc| Op::AddFile { doc }),
        1 => (0u8..4, any::<u8>()).prop_map(|(doc, sel)| Op::Ignore { doc, sel }),
        1 => Just(Op::Record),
        2 => any::<u8>().prop_map(|idx| Op::Config { idx }),
        2 => (any::<u8>(), 0u8..4).prop_map(|(idx, doc)| Op::ConfigAfterPull { idx, doc }),
        2 => any::<u8>().prop_map(|variant| Op::EditUserDict { variant }),
        1 => any::<bool>().prop_map(|slash| Op::DeleteDir { slash }),
        2 => any::<u8>().prop_map(|which| Op::DeleteOther { which }),
    ]
    .boxed()
}

pub fn history_strategy(max_batches: usize) -> BoxedStrategy<History> {
    // the first batch opens several documents at once, so that later batches find open documents
    let first = (proptest::collection::vec((0u8..4, any::<u8>()), 2..5), any::<u64>())
        .prop_map(|(v, salt)| (v.into_iter().map(|(doc, text)| Op::Open { doc, text }).collect::<Vec<_>>(), salt));
    let batch = prop_oneof![
        6 => proptest::collection::vec(op(), 1..7),
        2 => (any::<u8>(), 0u8..4, 0u8..4).prop_map(|(idx, a, b)| vec![Op::Config { idx }, Op::Close { doc: a }, Op::Close { doc: b }]),
        1 => (any::<u8>(), 0u8..4).prop_map(|(idx, doc)| vec![Op::ConfigAfterPull { idx, doc }]),
    ];
    // a document is edited, deleted (or closed) and opened again: the editor starts its version
    // numbers over
    let reopen = (0u8..3, any::<u8>(), any::<u8>(), any::<u8>(), 0u8..3, any::<u8>()).prop_map(|(doc, t1, t2, t3, how, t4)| {
        let end = match how {
            0 => Op::Delete { doc },
            1 => Op::Close { doc },
            _ => {
                if doc == 2 {
                    Op::DeleteDir { slash: t4 & 1 == 1 }
                } else {
                    Op::Delete { doc }
                }
            }
        };
        vec![
            vec![Op::Open { doc, text: t1 }],
            vec![Op::Change { doc, text: t2 }],
            vec![Op::Change { doc, text: t3 }],
            vec![Op::Change { doc, text: t1 }],
            vec![end],
            vec![Op::Open { doc, text: t2 }],
            vec![Op::Change { doc, text: t4 }],
            vec![Op::Change { doc, text: t3 }],
        ]
    });
    let piece = prop_oneof![
        8 => (batch, any::<u64>()).prop_map(|b| vec![b]),
        1 => (reopen, any::<u64>()).prop_map(|(bs, salt)| bs.into_iter().map(|b| (b, salt)).collect::<Vec<_>>()),
    ];
    (first, proptest::collection::vec(piece, 0..max_batches))
        .prop_map(|(f, rest)| {
            let mut batches = vec![f];
            batches.extend(rest.into_iter().flatten());
            History { batches }
        })
        .boxed()
}

// ------------------------------------------------------------------------------------------------
// finding sub-runs: each must fail in exactly the listed way

fn finding_subruns(run: &mut Run) {
    if run.strict {
        return;
    }
    let mut st = crate::core::CheckStats::new("known_finding_subruns");
    let mut attempt = |id: &str, f: &dyn Fn() -> Result<bool, LspError>| {
        if run.known.get(id).is_none() {
            return;
        }
        match f() {
            Ok(true) => {
                st.evaluations += 1;
                st.nontrivial.insert(crate::core::h64(id));
                run.known_reproduced.insert(id.to_string(), run.known.get(id).map(|k| k.what.clone()).unwrap_or_default());
            }
            Ok(false) => st.evaluations += 1,
            Err(e) => run.infra_problems.push(format!("finding sub-run {id}: {e}")),
        }
    };
    // 1. two updates of one document answered in reverse order: the stale text wins
    attempt(KF_STALE, &|| {
        let sb = Sandbox::new("c09kf");
        let mut s = Server::start_mode(&sb, settings_for(&sb, 0), None, true)?;
        let uri = sb.uri("k.txt");
        s.notify("textDocument/didOpen", json!({"textDocument": {"uri": uri, "languageId": "plaintext", "version": 1, "text": "This is fine.\n"}}))?;
        s.pump_until(T, "config request", |s| !s.pending_config.is_empty())?;
        s.answer_config(0)?;
        s.pump_until(T, "publication", |s| s.publications_for(&uri) >= 1)?;
        s.notify("textDocument/didChange", json!({"textDocument": {"uri": uri, "version": 2}, "contentChanges": [{"text": "This is an test.\n"}]}))?;
        s.notify("textDocument/didChange", json!({"textDocument": {"uri": uri, "version": 3}, "contentChanges": [{"text": "This is fine.\n"}]}))?;
        s.pump_until(T, "two config requests", |s| s.pending_config.len() >= 2)?;
        s.answer_config(1)?; // the newer text's handler completes first
        s.pump_until(T, "publication", |s| s.publications_for(&uri) >= 2)?;
        s.answer_config(0)?; // then the stale one
        s.pump_until(T, "publication", |s| s.publications_for(&uri) >= 3)?;
        let last = s.last_publication(&uri).cloned().unwrap_or_default();
        let _ = s.shutdown();
        Ok(!last.is_empty()) // newest text "This is fine." has no diagnostics
    });
    // 2. didSave re-reads the file: buffer != disk
    attempt(KF_DISK, &|| {
        let sb = Sandbox::new("c09kf");
        let mut s = Server::start(&sb, settings_for(&sb, 0), None)?;
        let uri = sb.uri("k.txt");
        std::fs::write(sb.ws_file("k.txt"), "This is an test.\n").map_err(|e| LspError::Protocol(e.to_string()))?;
        s.open(&uri, "plaintext", "This is an test.\n")?;
        s.change(&uri, 2, "This is fine.\n")?;
        let before = s.publications_for(&uri);
        s.notify("textDocument/didSave", json!({"textDocument": {"uri": uri}}))?;
        s.pump_until(T, "publication after didSave", |s| s.publications_for(&uri) > before)?;
        let last = s.last_publication(&uri).cloned().unwrap_or_default();
        let _ = s.shutdown();
        Ok(!last.is_empty())
    });
    // 3. adding a user-dictionary word refreshes only the given document
    attempt(KF_OTHER, &|| {
        let sb = Sandbox::new("c09kf");
        let mut s = Server::start(&sb, settings_for(&sb, 0), None)?;
        let (u1, u2) = (sb.uri("k1.txt"), sb.uri("k2.txt"));
        let text = "We like the frobnix very much.\n";
        for n in ["k1.txt", "k2.txt"] {
            std::fs::write(sb.ws_file(n), text).map_err(|e| LspError::Protocol(e.to_string()))?;
        }
        s.open(&u1, "plaintext", text)?;
        s.open(&u2, "plaintext", text)?;
        s.execute_and_publish("HarperAddToUserDict", json!(["frobnix", u1]), &u1)?;
        s.settle(Duration::from_millis(300))?;
        let last2 = s.last_publication(&u2).cloned().unwrap_or_default();
        let _ = s.shutdown();
        Ok(last2.iter().any(|d| d.message.contains("frobnix")))
    });
    // 4. untitled documents cannot be re-read from disk
    attempt(KF_UNTITLED, &|| {
        let sb = Sandbox::new("c09kf");
        let mut s = Server::start(&sb, settings_for(&sb, 0), None)?;
        let uri = "untitled:Untitled-1";
        let text = "We like the frobnix very much.\n";
        s.open(uri, "plaintext", text)?;
        let id = s.request("workspace/executeCommand", json!({"command": "HarperAddToUserDict", "arguments": ["frobnix", uri]}))?;
        s.wait_response(id, T)?;
        s.settle(Duration::from_millis(300))?;
        let last = s.last_publication(uri).cloned().unwrap_or_default();
        let _ = s.shutdown();
        Ok(last.iter().any(|d| d.message.contains("frobnix")))
    });
    st.samples.push(json!("finding sub-runs: stale handler, disk re-read, single-document refresh, untitled"));
    run.add_stats(st);
}

pub fn run(run: &mut Run) {
    run.rule = "histories of 1-8 (thorough 14) batches of 1-4 messages sent back-to-back to the real harper-ls over 4 documents (Markdown, plain, Rust, an untitled: buffer): didOpen / didChange / didSave / didClose / didChangeWatchedFiles(delete) / executeCommand(AddToUserDict, AddToFileDict, IgnoreLint, RecordLint) / didChangeConfiguration (7 settings); for each batch a generated order in which the harness answers the handlers' workspace/configuration requests = the order in which the in-flight handlers complete. Must-hold sub-space: at most one message per document in a batch, dictionary/config commands alone, disk-reading operations only with buffer == disk, an added user word not present in other open documents. After every batch the most recent publication of every document must equal what a second, trivially sequential harper-ls process publishes for its newest text under the current settings and dictionaries (closed/deleted: empty). The four designed-in violations outside that sub-space are exercised in labelled sub-runs. Non-trivial = handlers completed out of arrival order, or a close/delete inside a concurrent batch.".into();
    run.threads = run.threads.min(6);
    finding_subruns(run);
    run.max_shrink_iters = 24;
    let n = run.n(150, 2_000);
    let max_batches = run.tier.pick(8usize, 14usize);
    run.prop("scheduled_histories", n, move || history_strategy(max_batches), test_history);
    run.require_class("scheduled_histories", "two_or_more_handlers_in_flight", (n / 2) as u64);
    run.require_class("scheduled_histories", "handlers_completed_out_of_arrival_order", (n / 3) as u64);
    run.require_class("scheduled_histories", "close_or_delete_in_a_concurrent_batch", (n / 10) as u64);
    run.require_class("scheduled_histories", "configuration_change_racing_with_close", (n / 20) as u64);
    run.require_class("scheduled_histories", "change_with_a_version_already_used_before_the_document_was_reopened", (n / 20) as u64);
    run.require_class("scheduled_histories", "settings_pulled_before_the_change_notification", (n / 20) as u64);
    run.require_class("scheduled_histories", "deletion_of_a_path_that_prefixes_an_open_document", (n / 20) as u64);
}

pub fn replay(_check: &str, case: Value, _run: &mut Run) -> Result<(), String> {
    let c: History = serde_json::from_value(case).map_err(|e| e.to_string())?;
    let mut ctx = CaseCtx::default();
    let r = test_history(&c, &mut ctx);
    if let Some(i) = ctx.classes.iter().find(|c| c.starts_with("INFRA")) {
        return Err(format!("infrastructure problem during replay: {i}"));
    }
    r
}

#[allow(dead_code)]
fn _t(_: BTreeMap<String, String>) {}
