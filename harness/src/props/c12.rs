//! C12 — checking two paragraphs together equals checking them separately.

use std::cell::RefCell;

use harper_core::linting::{Lint, LintGroup, Linter};
use harper_core::parsers::PlainEnglish;
use harper_core::{Dialect, Document, FstDictionary};
use proptest::prelude::*;
use serde::{Deserialize, Serialize};
use serde_json::Value;

use crate::core::{CaseCtx, Run};
use crate::generators as g;

#[derive(Debug, Clone, Serialize, Deserialize, PartialEq, Eq, Hash)]
pub struct PairCase {
    pub p: String,
    pub d: String,
}

thread_local! {
    static GROUP: RefCell<Option<LintGroup>> = const { RefCell::new(None) };
}

/// lint with a freshly built linter (no state carried over from other texts)
pub fn lint_all_rules_fresh(text: &str) -> Vec<Lint> {
    let dict = FstDictionary::curated();
    let doc = Document::new(text, &PlainEnglish, &dict);
    let mut grp = LintGroup::new_curated(dict, Dialect::American);
    grp.config = crate::generators::ConfigSpec::all_on().build();
    grp.lint(&doc)
}

pub fn lint_all_rules(text: &str) -> Vec<Lint> {
    let dict = FstDictionary::curated();
    let doc = Document::new(text, &PlainEnglish, &dict);
    GROUP.with(|g| {
        let mut slot = g.borrow_mut();
        let mut group = slot.take().unwrap_or_else(|| {
            let mut grp = LintGroup::new_curated(FstDictionary::curated(), Dialect::American);
            grp.config = crate::generators::ConfigSpec::all_on().build();
            grp
        });
        let l = group.lint(&doc);
        *slot = Some(group);
        l
    })
}

pub fn lint_key(l: &Lint) -> String {
    format!(
        "{:08}-{:08} {}",
        l.span.start,
        l.span.end,
        serde_json::to_string(l).unwrap_or_default()
    )
}

pub fn test_pair(c: &PairCase, ctx: &mut CaseCtx) -> Result<(), String> {
    let plen = c.p.chars().count();
    let whole = format!("{}{}", c.p, c.d);
    let (lp, ld, lw) = match crate::core::catch(|| {
        // three independent linters: caches filled by one text must not leak into another
        (lint_all_rules_fresh(&c.p), lint_all_rules_fresh(&c.d), lint_all_rules_fresh(&whole))
    }) {
        Ok(v) => v,
        Err(_) => {
            ctx.class("skipped_c01_panic");
            return Ok(());
        }
    };
    let mut expected: Vec<String> = lp.iter().map(lint_key).collect();
    for l in &ld {
        let mut s = l.clone();
        s.span.start += plen;
        s.span.end += plen;
        expected.push(lint_key(&s));
    }
    expected.sort();
    let mut got: Vec<String> = lw.iter().map(lint_key).collect();
    got.sort();
    let condensable = c.p.contains('\'')
        || c.p.contains('’')
        || c.p.contains("...")
        || c.p.contains("e.g.")
        || c.p.contains("i.e.")
        || c.p.chars().zip(c.p.chars().skip(1)).any(|(a, b)| a.is_ascii_digit() && b.is_alphabetic());
    ctx.class_if(!lp.is_empty() && !ld.is_empty(), "both_have_lints");
    ctx.class_if(condensable, "p_condensable");
    ctx.class_if(c.d.contains('"') || c.d.contains('“'), "d_has_quotes");
    ctx.class_if(!c.p.is_ascii(), "p_multibyte");
    {
        let mixed = |t: &str| t.contains(" \t") || t.contains("\t ");
        ctx.class_if(mixed(&c.p) && mixed(&c.d), "runs_of_spaces_and_tabs_in_both_paragraphs");
    }
    {
        let blanks = c.d.chars().take_while(|ch| *ch == ' ' || *ch == '\t').count();
        ctx.class_if(blanks >= 2 && c.d.chars().count() > blanks, "d_starts_with_two_or_more_blanks");
        ctx.class_if(blanks >= 2 && ld.iter().any(|l| l.span.start == 0), "d_starts_with_blanks_and_a_lint_at_its_start");
    }
    if (!lp.is_empty() && !ld.is_empty()) || condensable {
        ctx.nontrivial(c);
    }
    if got != expected {
        let only_whole: Vec<&String> = got.iter().filter(|x| !expected.contains(x)).collect();
        let only_parts: Vec<&String> = expected.iter().filter(|x| !got.contains(x)).collect();
        return Err(format!(
            "lints(P+D) != lints(P) + shift(lints(D), {plen}); only in whole: {:?}; only in parts: {:?}",
            only_whole.iter().take(3).collect::<Vec<_>>(),
            only_parts.iter().take(3).collect::<Vec<_>>()
        ));
    }
    Ok(())
}

fn strip_quotes(s: &str) -> String {
    s.chars().filter(|c| !matches!(c, '"' | '“' | '”')).collect()
}

pub fn first_paragraph() -> BoxedStrategy<String> {
    (
        proptest::collection::vec(g::sentence(), 1..4),
        g::sel_str(&[".", ".", "!", "?"]),
        g::sel_str(&["\n\n", "\n\n", "\n\n\n"]),
    )
        .prop_map(|(ss, term, br)| {
            let mut p = strip_quotes(&ss.join(" ")).replace("\r\n", "\n");
            while p.contains("\n\n") || p.contains("\n \n") {
                p = p.replace("\n\n", "\n").replace("\n \n", "\n");
            }
            let mut p = p.trim_end().to_string();
            if !p.ends_with(['.', '!', '?']) {
                p.push_str(&term);
            }
            p.push_str(&br);
            p
        })
        .boxed()
}

fn recase(w: &str, mode: u8) -> String {
    match mode % 4 {
        0 => w.to_string(),
        1 => w.to_lowercase(),
        2 => w.to_uppercase(),
        _ => {
            let mut c = w.chars();
            match c.next() {
                Some(f) => f.to_uppercase().collect::<String>() + &c.as_str().to_lowercase(),
                None => String::new(),
            }
        }
    }
}

pub fn pair_strategy() -> BoxedStrategy<PairCase> {
    let independent = (first_paragraph(), g::text()).prop_map(|(p, d)| PairCase { p, d });
    // D re-uses words of P (same word, other capitalisation / position), so that anything a rule
    // or a cache remembers about a word of one paragraph meets the same word in the other
    let shared = (first_paragraph(), g::sentence(), proptest::collection::vec((any::<u16>(), 0u8..4), 1..4), g::sel_str(&["", ".", "?"]))
        .prop_map(|(p, s, picks, term)| {
            let words: Vec<&str> = p
                .split(|c: char| !c.is_alphanumeric() && c != '\'')
                .filter(|w| w.chars().count() >= 2)
                .collect();
            let mut d = String::new();
            for (i, (sel, mode)) in picks.iter().enumerate() {
                if !words.is_empty() {
                    let w = words[crate::core::pick_idx(*sel, words.len())];
                    if i > 0 {
                        d.push(' ');
                    }
                    d.push_str(&recase(w, *mode));
                }
            }
            let d = format!("{d} {s}{term}");
            PairCase { p, d }
        });
    let misspelt = (g::sel_str(&["definately", "teh", "recieve", "becuase", "wich", "seperate", "markdwon", "pyhton"]), 0u8..4, 0u8..4, g::plain_word(), g::plain_word())
        .prop_map(|(w, m1, m2, a, b)| PairCase {
            p: format!("{} a good {a}.\n\n", recase(&w, m1)),
            d: format!("It is {} a {b} idea.", recase(&w, m2)),
        });
    // P ends in an abbreviation that swallows its full stop; D opens with words rules look back from
    let abbrev = (
        g::harvested_sentence(),
        g::sel_str(&["etc.", "vs.", "et al.", "e.g.", "i.e.", "a.m.", "p.m.", "U.S.", "N.S.A.", "a.", "I."]),
        g::sel_str(&["Is this the right place?", "is it?", "Are we there?", "Of course it is.", "of the people", "the cat", "Then we left.", "than that", "an apple", "A apple", "Was aloud to go.", "fore we go", "Which is fine.", "1st place", "'s good"]),
        g::sentence(),
    )
        .prop_map(|(s, a, open, rest)| {
            let s = strip_quotes(&s).replace("\n\n", " ");
            PairCase { p: format!("{} {a}\n\n", s.trim_end_matches(['.', '!', '?', ' ', '\n'])), d: format!("{open} {rest}") }
        });
    // ordinals and other condensed constructs in both paragraphs
    let ordinals = (
        g::sel_str(&["1st", "2nd", "3rd", "11th", "21ST", "4th", "don't", "e.g.", "N.S.A.", "..."]),
        g::sel_str(&["2st", "22ND", "3th", "1nd", "13rd", "101th", "won't", "i.e.", "U.S.A.", "...."]),
        g::plain_word(),
        g::plain_word(),
        g::sel_str(&["1st", "5th", "can't", "etc."]),
    )
        .prop_map(|(a, b, w1, w2, c)| PairCase {
            p: format!("She finished {a} in the {w1} and {c} too.\n\n"),
            d: format!("He came in {b} at the {w2}, then {a} again on the {b} of May."),
        });
    // D opens with something rules treat specially at the beginning of a text: list markers,
    // amounts, symbols, numbers, quotes-free punctuation
    let openers = (
        first_paragraph(),
        g::sel_str(&["1. Preheat the oven.\n2. Mix the flour.\n3. Bake it.", "2) Mix it well.", "25 $ was the fee we had agreed on.", "$ 40 is too much.", "30 € per head.", "3 apples fell.", "- a dash first", "* star first", "(in brackets) it began.", "...and so on.", "& more", "9 out of 10 agree.", "a. first item", "I. Introduction", "#1 is best", "@home we rest", "%s is a format", "1st prize went to her.", "'tis the season"]),
        g::sentence(),
    )
        .prop_map(|(p, open, rest)| PairCase { p, d: format!("{open} {rest}") });
    // runs of blanks that mix spaces and tabs (several whitespace tokens in a row) in both paragraphs
    let blank_run = || g::sel_str(&[" ", " ", "  ", " \t ", "\t \t", " \t", "\t ", "\t", " \t \t ", "   ", "\t\t", " \t  \t "]);
    let spaced = move || {
        proptest::collection::vec((g::plain_word(), blank_run()), 2..8).prop_map(|ws| {
            let mut s = String::new();
            for (i, (w, sep)) in ws.iter().enumerate() {
                if i > 0 {
                    s.push_str(sep);
                }
                s.push_str(w);
            }
            s
        })
    };
    let blanks = (spaced(), spaced(), g::sel_str(&["\n\n", "\n\n\n", "\n\n\n\n"]), g::sel_str(&["", ".", " \t"]))
        .prop_map(|(p, d, br, tail)| PairCase { p: format!("{p}.{br}"), d: format!("{d}{tail}") });
    // an indented first line: D (and sometimes P) starts with a run of blanks, which a rule that
    // counts sentences or looks at "the beginning" sees at another position in P+D than in D alone
    let lead = || g::sel_str(&["  ", "    ", "   ", "\t", " \t", "\t ", "  \t  ", " "]);
    let indented = (first_paragraph(), prop::bool::weighted(0.3), lead(), lead(), g::text(), g::sentence(), any::<bool>())
        .prop_map(|(p, indent_p, lp, ld, text, sentence, use_text)| PairCase {
            p: if indent_p { format!("{lp}{p}") } else { p },
            d: format!("{ld}{}", if use_text { text } else { sentence }),
        });
    prop_oneof![5 => independent, 3 => shared, 1 => misspelt, 2 => abbrev, 1 => ordinals, 2 => openers, 2 => blanks, 3 => indented].boxed()
}

pub fn run(run: &mut Run) {
    run.rule = "pairs (P, D): P = 1-3 G-TEXT sentences with double quotes removed, internal blank lines collapsed, ending in a sentence terminator and a paragraph break (\\n\\n or \\n\\n\\n); D = any G-TEXT text (plus families: shared words, abbreviations at the end of P, ordinals, special openers of D, runs mixing spaces and tabs in both, an indented first line of D and sometimes P); plain English, all rules on; oracle: sorted lints(P+D) == sorted(lints(P) ++ shift(lints(D), |P|)) comparing all fields. Non-trivial = P and D both produce lints, or P contains a condensable construct; distinct by (P, D).".into();
    let n = run.n(6_000, 300_000);
    run.prop("paragraph_pairs", n, pair_strategy, test_pair);
    run.require_class("paragraph_pairs", "both_have_lints", (n / 5) as u64);
    run.require_class("paragraph_pairs", "p_condensable", (n / 20) as u64);
    run.require_class("paragraph_pairs", "runs_of_spaces_and_tabs_in_both_paragraphs", (n / 40) as u64);
    run.require_class("paragraph_pairs", "d_starts_with_two_or_more_blanks", (n / 20) as u64);
    run.require_class("paragraph_pairs", "d_starts_with_blanks_and_a_lint_at_its_start", (n / 50) as u64);
}

pub fn replay(_check: &str, case: Value, _run: &mut Run) -> Result<(), String> {
    let c: PairCase = serde_json::from_value(case).map_err(|e| e.to_string())?;
    let mut ctx = CaseCtx::default();
    test_pair(&c, &mut ctx)
}
