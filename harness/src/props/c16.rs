//! C16 — the JavaScript-facing linter API is self-consistent.

use std::sync::Arc;

use harper_core::linting::{Lint as CoreLint, LintGroup, LintGroupConfig, Linter as _};
use harper_core::parsers::{Markdown, MarkdownOptions, Parser, PlainEnglish};
use harper_core::{
    Dictionary, Document, FstDictionary, MergedDictionary, MutableDictionary, WordMetadata,
    remove_overlaps,
};
use harper_wasm::{Language, Linter};
use proptest::prelude::*;
use serde::{Deserialize, Serialize};
use serde_json::Value;

use super::c14::{Identity, identity};
use crate::core::{CaseCtx, Run, pick_idx};
use crate::generators::{self as g, DIALECTS};
use crate::oracle;

#[derive(Debug, Clone, Serialize, Deserialize, PartialEq, Eq, Hash)]
pub enum Op {
    Lint { text: u16, markdown: bool },
    /// apply suggestion j of lint i of the last result
    Apply { lint: u16, sug: u16 },
    /// ignore lint i of the last result
    Ignore { lint: u16 },
    ImportWords(Vec<String>),
    ExportClearImportIgnored,
    /// export, import again without clearing (must be idempotent)
    ExportImportIgnored,
    /// export, clear, ignore lint i of the last result, import: both stay hidden
    ClearIgnoreThenImport { lint: u16 },
    ClearIgnored,
    /// fresh Linter rebuilt from exported words, ignore list and config
    RebuildFromExports,
    SetConfig(Vec<(String, Option<bool>)>),
    /// switch one of the rules that fire on text `text` (if it is short) on or off
    ToggleFiring { text: u16, which: u16, on: bool },
}

#[derive(Debug, Clone, Serialize, Deserialize, PartialEq, Eq, Hash)]
pub struct ApiCase {
    pub texts: Vec<String>,
    pub ops: Vec<Op>,
    pub dialect: u8,
}

fn wasm_dialect(d: u8) -> harper_wasm::Dialect {
    match d % 4 {
        0 => harper_wasm::Dialect::American,
        1 => harper_wasm::Dialect::British,
        2 => harper_wasm::Dialect::Australian,
        _ => harper_wasm::Dialect::Canadian,
    }
}

fn lang(markdown: bool) -> Language {
    if markdown {
        Language::Markdown
    } else {
        Language::Plain
    }
}

struct Model {
    words: Vec<String>,
    config: std::collections::BTreeMap<String, bool>,
    ignored: Vec<Identity>,
    /// the very lints that were ignored: (text index, language, number of imported words then, lint)
    ignored_exact: Vec<(usize, bool, usize, CoreLint)>,
    dialect: u8,
}

impl Model {
    fn dict(&self) -> Arc<MergedDictionary> {
        let mut user = MutableDictionary::new();
        user.extend_words(
            self.words
                .iter()
                .map(|w| (w.chars().collect::<Vec<char>>(), WordMetadata::default())),
        );
        let mut m = MergedDictionary::new();
        m.add_dictionary(FstDictionary::curated());
        m.add_dictionary(Arc::new(user));
        Arc::new(m)
    }
    fn doc(&self, text: &str, markdown: bool) -> Document {
        let parser: Box<dyn Parser> = if markdown {
            Box::new(Markdown::new(MarkdownOptions::default()))
        } else {
            Box::new(PlainEnglish)
        };
        Document::new(text, &parser, &self.dict())
    }
    /// lints before the ignore filter
    fn lint(&self, text: &str, markdown: bool) -> (Document, Vec<CoreLint>) {
        let doc = self.doc(text, markdown);
        let mut cfg = LintGroupConfig::new_curated();
        for (k, v) in &self.config {
            cfg.set_rule_enabled(k, *v);
        }
        let mut group =
            LintGroup::new_curated(self.dict(), DIALECTS[self.dialect as usize % 4]).with_lint_config(cfg);
        let mut lints = group.lint(&doc);
        remove_overlaps(&mut lints);
        (doc, lints)
    }
}

fn inner_of(l: &harper_wasm::Lint) -> Result<CoreLint, String> {
    let v: Value = serde_json::from_str(&l.to_json()).map_err(|e| e.to_string())?;
    serde_json::from_value(v["inner"].clone()).map_err(|e| format!("lint JSON has no inner lint: {e}"))
}

pub fn test_api(c: &ApiCase, ctx: &mut CaseCtx) -> Result<(), String> {
    let mut linter = Linter::new(wasm_dialect(c.dialect));
    let mut model = Model {
        words: vec![],
        config: Default::default(),
        ignored: vec![],
        ignored_exact: vec![],
        dialect: c.dialect,
    };
    let texts = &c.texts;
    if texts.is_empty() {
        return Ok(());
    }
    // last result: (text index, markdown, lints)
    let mut last: Option<(usize, bool, Vec<harper_wasm::Lint>)> = None;
    let mut applies = 0usize;
    let mut seen_lang: std::collections::HashMap<usize, bool> = Default::default();
    let mut lang_switch = false;
    let mut relint_after_ignore = false;
    let mut relint_after_import = false;
    let mut pending_ignore = false;
    let mut pending_import = false;

    // resolve the rule-toggling ops against the texts
    let ops: Vec<Op> = c
        .ops
        .iter()
        .map(|op| match op {
            Op::ToggleFiring { text, which, on } => {
                let t = &texts[pick_idx(*text, texts.len())];
                let rules = if RELINT_TEXTS.contains(&t.as_str()) { firing_rules_robust(t) } else { vec![] };
                if rules.is_empty() {
                    Op::SetConfig(vec![])
                } else {
                    Op::SetConfig(vec![(rules[pick_idx(*which, rules.len())].clone(), Some(*on))])
                }
            }
            o => o.clone(),
        })
        .collect();
    if c.ops.iter().any(|o| matches!(o, Op::ToggleFiring { .. })) {
        ctx.class("firing_rule_toggled");
    }
    for (step, op) in ops.iter().enumerate() {
        match op {
            Op::Lint { text, markdown } => {
                let ti = pick_idx(*text, texts.len());
                let t = &texts[ti];
                if let Some(prev) = seen_lang.insert(ti, *markdown) {
                    lang_switch |= prev != *markdown;
                }
                relint_after_ignore |= pending_ignore;
                relint_after_import |= pending_import;
                pending_ignore = false;
                pending_import = false;
                let got = match crate::core::catch(std::panic::AssertUnwindSafe(|| {
                    linter.lint(t.clone(), lang(*markdown))
                })) {
                    Ok(l) => l,
                    Err(_) => {
                        ctx.class("skipped_c01_panic");
                        return Ok(());
                    }
                };
                let chars: Vec<char> = t.chars().collect();
                // intrinsic consistency
                for (i, l) in got.iter().enumerate() {
                    let sp = l.span();
                    if !(sp.start <= sp.end && sp.end <= chars.len()) {
                        return Err(format!(
                            "step {step}: lint span {}..{} outside the text ({} chars)",
                            sp.start,
                            sp.end,
                            chars.len()
                        ));
                    }
                    let want: String = chars[sp.start..sp.end].iter().collect();
                    if l.get_problem_text() != want {
                        return Err(format!(
                            "step {step}: problem text {:?} is not the text at the span {:?}",
                            l.get_problem_text(),
                            want
                        ));
                    }
                    for o in &got[i + 1..] {
                        let os = o.span();
                        if sp.start < os.end && os.start < sp.end {
                            return Err(format!(
                                "step {step}: returned lints overlap: {}..{} and {}..{}",
                                sp.start, sp.end, os.start, os.end
                            ));
                        }
                    }
                    // JSON round trips
                    let j = l.to_json();
                    let back = harper_wasm::Lint::from_json(j.clone())
                        .map_err(|e| format!("step {step}: Lint::from_json failed on its own to_json: {e}"))?;
                    if back.to_json() != j {
                        return Err(format!("step {step}: Lint JSON round trip changed the lint: {j}"));
                    }
                    let sj = sp.to_json();
                    let sb = harper_wasm::Span::from_json(sj.clone()).map_err(|e| e.to_string())?;
                    if (sb.start, sb.end) != (sp.start, sp.end) {
                        return Err(format!("step {step}: Span JSON round trip changed {sj}"));
                    }
                    for s in l.suggestions() {
                        let j = s.to_json();
                        let b = harper_wasm::Suggestion::from_json(j.clone()).map_err(|e| e.to_string())?;
                        if b.to_json() != j {
                            return Err(format!("step {step}: Suggestion JSON round trip changed {j}"));
                        }
                    }
                }
                // differential against the model
                let (doc, expect_all) = model.lint(t, *markdown);
                let got_inner: Vec<CoreLint> =
                    got.iter().map(inner_of).collect::<Result<_, _>>()?;
                for gl in &got_inner {
                    if !expect_all.contains(gl) {
                        return Err(format!(
                            "step {step}: API reports a lint the model does not produce for {:?} ({}): {}..{} {:?}",
                            t,
                            if *markdown { "markdown" } else { "plain" },
                            gl.span.start,
                            gl.span.end,
                            gl.message
                        ));
                    }
                }
                for el in &expect_all {
                    let id = identity(el, &doc);
                    let ignored = model.ignored.iter().any(|i| *i == id);
                    let present = got_inner.contains(el);
                    if !ignored && !present {
                        return Err(format!(
                            "step {step}: lint {}..{} {:?} of {:?} ({}) is missing from the API result although nothing like it was ignored (words={:?}, config={:?})",
                            el.span.start,
                            el.span.end,
                            el.message,
                            t,
                            if *markdown { "markdown" } else { "plain" },
                            model.words,
                            model.config
                        ));
                    }
                }
                // a lint that was ignored on this very text stays hidden (as long as the
                // dictionary is what it was: token metadata is part of harper's notion of context)
                for (iti, imd, nwords, il) in &model.ignored_exact {
                    if *iti == ti && *imd == *markdown && *nwords == model.words.len() && got_inner.contains(il) {
                        return Err(format!(
                            "step {step}: lint {}..{} {:?} of {:?} was ignored earlier but is reported again",
                            il.span.start, il.span.end, il.message, t
                        ));
                    }
                }
                // imported words are not flagged in their exact form
                for gl in &got_inner {
                    if gl.lint_kind == harper_core::linting::LintKind::Spelling {
                        let w: String = chars[gl.span.start..gl.span.end].iter().collect();
                        if model.words.contains(&w) {
                            return Err(format!(
                                "step {step}: imported word {w:?} is still reported as misspelt"
                            ));
                        }
                    }
                }
                last = Some((ti, *markdown, got));
            }
            Op::Apply { lint, sug } => {
                let Some((ti, _md, lints)) = &last else { continue };
                if lints.is_empty() {
                    continue;
                }
                let l = &lints[pick_idx(*lint, lints.len())];
                let sugs = l.suggestions();
                if sugs.is_empty() {
                    continue;
                }
                let s = &sugs[pick_idx(*sug, sugs.len())];
                let t = &texts[*ti];
                let out = linter
                    .apply_suggestion(t.clone(), l, s)
                    .map_err(|e| format!("step {step}: apply_suggestion failed: {e}"))?;
                applies += 1;
                let inner = inner_of(l)?;
                let chars: Vec<char> = t.chars().collect();
                let core_s: harper_core::linting::Suggestion = {
                    let v: Value = serde_json::from_str(&s.to_json()).map_err(|e| e.to_string())?;
                    serde_json::from_value(v["inner"].clone()).map_err(|e| e.to_string())?
                };
                let want = oracle::string(&oracle::ref_apply(&chars, inner.span.start, inner.span.end, &core_s));
                if out != want {
                    return Err(format!(
                        "step {step}: apply_suggestion({:?}) on {:?} returned {:?}, reference splice gives {:?}",
                        core_s, t, out, want
                    ));
                }
                let lines = linter.generate_stats_file().lines().count();
                if lines != applies {
                    return Err(format!(
                        "step {step}: {applies} suggestions applied but the statistics file has {lines} records"
                    ));
                }
            }
            Op::Ignore { lint } => {
                let Some((ti, md, lints)) = &last else { continue };
                if lints.is_empty() {
                    continue;
                }
                let i = pick_idx(*lint, lints.len());
                let inner = inner_of(&lints[i])?;
                let doc = model.doc(&texts[*ti], *md);
                model.ignored.push(identity(&inner, &doc));
                model.ignored_exact.push((*ti, *md, model.words.len(), inner.clone()));
                let l = harper_wasm::Lint::from_json(lints[i].to_json()).map_err(|e| e.to_string())?;
                linter.ignore_lint(texts[*ti].clone(), l);
                pending_ignore = true;
                // re-lint the same text right away: the ignored lint is gone
                let again = linter.lint(texts[*ti].clone(), lang(*md));
                for a in &again {
                    if inner_of(a)? == inner {
                        return Err(format!(
                            "step {step}: lint {}..{} {:?} is still reported right after ignore_lint",
                            inner.span.start, inner.span.end, inner.message
                        ));
                    }
                }
            }
            Op::ImportWords(ws) => {
                for w in ws {
                    // exclude by construction the C07 finding (case variants of an earlier word)
                    if !model.words.iter().any(|x| x.to_lowercase() == w.to_lowercase()) && !w.is_empty() {
                        model.words.push(w.clone());
                    }
                }
                let accepted: Vec<String> = ws
                    .iter()
                    .filter(|w| model.words.contains(w))
                    .cloned()
                    .collect();
                linter.import_words(accepted);
                pending_import = true;
                let mut exported = linter.export_words();
                exported.sort();
                let mut want = model.words.clone();
                want.sort();
                if exported != want {
                    return Err(format!(
                        "step {step}: export_words returns {:?}, imported so far {:?}",
                        exported, want
                    ));
                }
            }
            Op::ExportClearImportIgnored => {
                let json = linter.export_ignored_lints();
                linter.clear_ignored_lints();
                linter
                    .import_ignored_lints(json)
                    .map_err(|e| format!("step {step}: import_ignored_lints failed on exported JSON: {e}"))?;
            }
            Op::ExportImportIgnored => {
                let json = linter.export_ignored_lints();
                linter
                    .import_ignored_lints(json)
                    .map_err(|e| format!("step {step}: import_ignored_lints failed on exported JSON: {e}"))?;
            }
            Op::ClearIgnoreThenImport { lint } => {
                let json = linter.export_ignored_lints();
                linter.clear_ignored_lints();
                if let Some((ti, md, lints)) = &last {
                    if !lints.is_empty() {
                        let i = pick_idx(*lint, lints.len());
                        let inner = inner_of(&lints[i])?;
                        let doc = model.doc(&texts[*ti], *md);
                        model.ignored.push(identity(&inner, &doc));
                        model.ignored_exact.push((*ti, *md, model.words.len(), inner.clone()));
                        let l = harper_wasm::Lint::from_json(lints[i].to_json()).map_err(|e| e.to_string())?;
                        linter.ignore_lint(texts[*ti].clone(), l);
                    }
                }
                linter
                    .import_ignored_lints(json)
                    .map_err(|e| format!("step {step}: import_ignored_lints failed on exported JSON: {e}"))?;
                pending_ignore = true;
            }
            Op::ClearIgnored => {
                linter.clear_ignored_lints();
                model.ignored.clear();
                model.ignored_exact.clear();
            }
            Op::RebuildFromExports => {
                let words = linter.export_words();
                let ignored = linter.export_ignored_lints();
                let cfg = linter.get_lint_config_as_json();
                let stats = linter.generate_stats_file();
                let mut fresh = Linter::new(wasm_dialect(c.dialect));
                fresh.import_words(words);
                fresh.import_ignored_lints(ignored).map_err(|e| e.to_string())?;
                fresh.set_lint_config_from_json(cfg).map_err(|e| e.to_string())?;
                fresh
                    .import_stats_file(stats)
                    .map_err(|e| format!("step {step}: import_stats_file failed on generated file: {e}"))?;
                linter = fresh;
            }
            Op::ToggleFiring { .. } => {}
            Op::SetConfig(entries) => {
                let map: serde_json::Map<String, Value> = entries
                    .iter()
                    .map(|(k, v)| (k.clone(), v.map(Value::Bool).unwrap_or(Value::Null)))
                    .collect();
                for (k, v) in &map {
                    if let Value::Bool(b) = v {
                        model.config.insert(k.clone(), *b);
                    }
                }
                linter
                    .set_lint_config_from_json(Value::Object(map).to_string())
                    .map_err(|e| format!("step {step}: set_lint_config_from_json: {e}"))?;
            }
        }
    }
    ctx.class_if(lang_switch, "language_switch_on_one_text");
    ctx.class_if(relint_after_ignore, "relint_after_ignore");
    ctx.class_if(relint_after_import, "relint_after_import");
    ctx.class_if(applies > 0, "applied_suggestion");
    if lang_switch || relint_after_ignore || relint_after_import {
        ctx.nontrivial(c);
    }
    Ok(())
}

/// short texts on which pattern rules fire
const RELINT_TEXTS: &[&str] = &[
    "He is taller then her.",
    "I could of gone there fore.",
    "Their is alot of work to to do.",
    "This is very very good, more then enough.",
    "As a matter of fact, at the end of the day it is what it is.",
    "Their is an apple, an problem, teh wrold and a  double space. I could of gone. the the cat",
];

/// The rules that fire on `text`, each determined with a linter of its own (a helper that reused
/// one linter would inherit any caching defect of the code under test). Computed once per text.
fn firing_rules_robust(text: &str) -> Vec<String> {
    use std::collections::HashMap;
    use std::sync::{Mutex, OnceLock};
    static CACHE: OnceLock<Mutex<HashMap<String, Vec<String>>>> = OnceLock::new();
    let cache = CACHE.get_or_init(|| Mutex::new(HashMap::new()));
    let mut guard = cache.lock().unwrap();
    if let Some(v) = guard.get(text) {
        return v.clone();
    }
    let keys = &g::harvest().rule_keys;
    let out: Mutex<Vec<String>> = Mutex::new(vec![]);
    std::thread::scope(|sc| {
        for chunk in keys.chunks(keys.len().div_ceil(16).max(1)) {
            let out = &out;
            sc.spawn(move || {
                let dict = FstDictionary::curated();
                let doc = Document::new(text, &PlainEnglish, &dict);
                for k in chunk {
                    let mut group = LintGroup::new_curated(dict.clone(), DIALECTS[0])
                        .with_lint_config(crate::generators::ConfigSpec::only(&[k.as_str()]).build());
                    if crate::core::catch(std::panic::AssertUnwindSafe(|| !group.lint(&doc).is_empty())).unwrap_or(false) {
                        out.lock().unwrap().push(k.clone());
                    }
                }
            });
        }
    });
    let mut v = out.into_inner().unwrap();
    v.sort();
    guard.insert(text.to_string(), v.clone());
    v
}

const IMPORTABLE: &[&str] = &[
    "frobnicate", "Zorblax", "qwertz", "naïvetéx", "harperism", "xkcdish", "teh", "wrold",
    // other capitalisations of curated words: reported until imported
    "linux", "paris", "markdown", "javascript", "monday", "KUBERNETES",
];

fn api_text() -> BoxedStrategy<String> {
    prop_oneof![
        3 => g::text(),
        2 => g::markup::markdown_doc(),
        3 => (g::sel_str(IMPORTABLE), g::sentence(), g::sel_str(IMPORTABLE))
            .prop_map(|(a, s, b)| format!("The {a} is an problem. {s} We like {b} and {a}.")),
        1 => Just("Their is an apple, an problem, teh wrold and a  double space. I could of gone. the the cat".to_string()),
        1 => Just("I could **of** done it. Their is teh `code` here.".to_string()),
        // an importable word within two characters of other lints
        3 => (g::sel_str(IMPORTABLE), g::sel_str(IMPORTABLE)).prop_map(|(a, b)| format!("I saw an {a} thing and the the {b} cat. We we like {a}.")),
        // short texts on which pattern rules fire
        2 => g::sel_str(RELINT_TEXTS),
    ]
    .boxed()
}

fn op() -> BoxedStrategy<Op> {
    let cfg_key = prop_oneof![
        4 => g::sel_str(&["SpellCheck", "SentenceCapitalization", "RepeatedWords", "AnA", "LongSentences", "SpelledNumbers", "Spaces", "UnclosedQuotes"]),
        2 => g::rule_key(),
        1 => Just("NoSuchRule".to_string()),
    ];
    prop_oneof![
        8 => (any::<u16>(), any::<bool>()).prop_map(|(text, markdown)| Op::Lint { text, markdown }),
        2 => (any::<u16>(), any::<u16>()).prop_map(|(lint, sug)| Op::Apply { lint, sug }),
        3 => any::<u16>().prop_map(|lint| Op::Ignore { lint }),
        2 => proptest::collection::vec(prop_oneof![3 => g::sel_str(IMPORTABLE), 1 => g::near_word()], 1..3).prop_map(Op::ImportWords),
        1 => Just(Op::ExportClearImportIgnored),
        1 => Just(Op::ExportImportIgnored),
        2 => any::<u16>().prop_map(|lint| Op::ClearIgnoreThenImport { lint }),
        1 => Just(Op::ClearIgnored),
        1 => Just(Op::RebuildFromExports),
        2 => proptest::collection::vec((cfg_key, prop_oneof![Just(Some(true)), Just(Some(false)), Just(None)]), 1..3).prop_map(Op::SetConfig),
        3 => (any::<u16>(), any::<u16>(), prop::bool::weighted(0.3)).prop_map(|(text, which, on)| Op::ToggleFiring { text, which, on }),
    ]
    .boxed()
}

pub fn api_strategy(max_ops: usize) -> BoxedStrategy<ApiCase> {
    let free = (
        proptest::collection::vec(api_text(), 1..4),
        proptest::collection::vec(op(), 1..max_ops),
        0u8..4,
    )
        .prop_map(|(texts, ops, dialect)| ApiCase { texts, ops, dialect });
    // the same text checked again after one of the rules that fire on it was switched
    let relint = (
        g::sel_str(RELINT_TEXTS),
        proptest::collection::vec((any::<u16>(), any::<bool>(), any::<bool>()), 1..5),
        any::<bool>(),
        0u8..4,
        proptest::collection::vec(op(), 0..3),
    )
        .prop_map(|(text, toggles, markdown, dialect, tail)| {
            let mut ops = vec![Op::Lint { text: 0, markdown }];
            for (which, on, md) in toggles {
                ops.push(Op::ToggleFiring { text: 0, which, on });
                ops.push(Op::Lint { text: 0, markdown: if md { markdown } else { !markdown } });
            }
            ops.extend(tail);
            ApiCase { texts: vec![text], ops, dialect }
        });
    // the same misspelling in two capitalisations, in two texts checked by one Linter: whatever the
    // Linter remembers about the first must not leak into what is ignored, exported and rebuilt
    let recased = (
        g::sel_str(&["teh", "freind", "wrod", "pythn", "recieve", "seperate"]),
        any::<bool>(),
        0u8..4,
        proptest::collection::vec(op(), 0..4),
    )
        .prop_map(|(w, markdown, dialect, tail)| {
            let cap: String = {
                let mut c = w.chars();
                c.next().map(|f| f.to_uppercase().collect::<String>() + c.as_str()).unwrap_or_default()
            };
            let texts = vec![format!("I saw the {w} there."), format!("{cap} dog barked at the {} gate.", w.to_uppercase())];
            let mut ops = vec![
                Op::Lint { text: 0, markdown },
                Op::Lint { text: u16::MAX, markdown },
                Op::Ignore { lint: 0 },
                Op::Lint { text: u16::MAX, markdown },
                Op::RebuildFromExports,
                Op::Lint { text: u16::MAX, markdown },
            ];
            ops.extend(tail);
            ApiCase { texts, ops, dialect }
        });
    prop_oneof![8 => free, 2 => relint, 1 => recased].boxed()
}

pub fn run(run: &mut Run) {
    run.rule = "call sequences (<=15 ops, thorough <=25) on harper_wasm::Linter compiled natively, over 1-3 texts (G-TEXT, Markdown documents, texts with importable non-words) in all 4 dialects: Lint(text, Plain|Markdown), Apply(lint, suggestion), Ignore(lint), ImportWords, export+clear+import of the ignore list, clear, rebuild a fresh Linter from all exports, SetConfig(json). Oracle: spans inside the text, pairwise disjoint, problem text = text at span; Lint/Span/Suggestion JSON round trips; apply = reference splice; result set = in-process model (curated+imported dictionary, curated config overlaid with user choices, overlap removal) minus only lints with the identity (C14) of an ignored lint; imported words never flagged, exported = imported. Non-trivial = a language switch on one text, or a re-lint after ignore/import.".into();
    let n = run.n(1_000, 15_000);
    let max_ops = run.tier.pick(15usize, 25usize);
    run.prop("api_sequences", n, move || api_strategy(max_ops), test_api);
    run.require_class("api_sequences", "language_switch_on_one_text", (n / 5) as u64);
    run.require_class("api_sequences", "relint_after_ignore", (n / 8) as u64);
    run.require_class("api_sequences", "relint_after_import", (n / 8) as u64);
    run.require_class("api_sequences", "applied_suggestion", (n / 10) as u64);

    // title case through the JS entry point agrees with the library function (C18 owns the laws)
    let n = run.n(2_000, 50_000);
    run.prop("to_title_case_entry_point", n, g::paragraph, |t: &String, ctx: &mut CaseCtx| {
        let a = harper_wasm::to_title_case(t.clone());
        let b = harper_core::make_title_case_str(t, &PlainEnglish, &FstDictionary::curated());
        if t.split_whitespace().count() >= 3 {
            ctx.nontrivial(t);
        }
        if a != b {
            return Err(format!("to_title_case({t:?}) = {a:?}, library gives {b:?}"));
        }
        Ok(())
    });
    let _ = FstDictionary::curated().word_count();
}

pub fn replay(check: &str, case: Value, _run: &mut Run) -> Result<(), String> {
    let mut ctx = CaseCtx::default();
    if check == "to_title_case_entry_point" {
        return Ok(());
    }
    let c: ApiCase = serde_json::from_value(case).map_err(|e| e.to_string())?;
    test_api(&c, &mut ctx)
}
