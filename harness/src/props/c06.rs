//! C06 — a word is reported misspelt exactly when the dictionary does not contain it.

use std::cell::RefCell;
use std::collections::HashSet;

use harper_core::linting::{Lint, LintGroup, LintKind, Linter, Suggestion};
use harper_core::parsers::PlainEnglish;
use harper_core::{Dictionary, Document, FstDictionary};
use proptest::prelude::*;
use serde::{Deserialize, Serialize};
use serde_json::Value;

use crate::core::{CaseCtx, Run};
use crate::generators::{self as g, DIALECTS};
use crate::oracle::chars;

pub const KF_MULTI: &str = "KF-C06-multi-token-entries";

#[derive(Debug, Clone, Serialize, Deserialize, PartialEq, Eq, Hash)]
pub struct WordCase {
    pub word: String,
    pub dialect: u8,
    /// 0 as listed, 1 Capitalised, 2 UPPER (only applied to all-lower-case entries)
    pub form: u8,
    pub prefix: String,
    pub postfix: String,
}

thread_local! {
    static GROUPS: RefCell<Vec<Option<LintGroup>>> = const { RefCell::new(Vec::new()) };
}

fn spell_lints(text: &str, dialect: u8) -> Vec<Lint> {
    let dict = FstDictionary::curated();
    let doc = Document::new(text, &PlainEnglish, &dict);
    GROUPS.with(|gs| {
        let mut gs = gs.borrow_mut();
        if gs.is_empty() {
            gs.resize_with(4, || None);
        }
        let d = (dialect % 4) as usize;
        let mut group = gs[d].take().unwrap_or_else(|| {
            let mut grp = LintGroup::new_curated(FstDictionary::curated(), DIALECTS[d]);
            grp.config = crate::generators::ConfigSpec::only(&["SpellCheck"]).build();
            grp
        });
        let l = group.lint(&doc);
        gs[d] = Some(group);
        l.into_iter().filter(|l| l.lint_kind == LintKind::Spelling).collect()
    })
}

fn apply_form(w: &str, form: u8) -> String {
    let all_lower = w.chars().all(|c| !c.is_uppercase());
    if !all_lower {
        return w.to_string();
    }
    match form {
        1 => {
            let mut c = w.chars();
            match c.next() {
                Some(f) => f.to_uppercase().collect::<String>() + c.as_str(),
                None => String::new(),
            }
        }
        2 => w.to_uppercase(),
        _ => w.to_string(),
    }
}

fn known_multi_token() -> &'static HashSet<String> {
    static K: std::sync::OnceLock<HashSet<String>> = std::sync::OnceLock::new();
    K.get_or_init(|| {
        let known = crate::core::Known::load();
        known
            .get(KF_MULTI)
            .and_then(|k| k.signature["entries"].as_array().cloned())
            .map(|a| a.iter().filter_map(|v| v.as_str().map(String::from)).collect())
            .unwrap_or_default()
    })
}

/// (->) a listed word is never reported
pub fn test_listed(c: &WordCase, ctx: &mut CaseCtx) -> Result<(), String> {
    let dict = FstDictionary::curated();
    let wc = chars(&c.word);
    let Some(meta) = dict.get_word_metadata(&wc) else {
        ctx.class("not_in_dictionary");
        return Ok(());
    };
    let active = DIALECTS[c.dialect as usize % 4];
    if !meta.dialect.is_none_or(|d| d == active) {
        ctx.class("other_dialect_entry");
        return Ok(());
    }
    let shown = apply_form(&c.word, c.form);
    if shown.chars().count() != c.word.chars().count() {
        // upper-casing changed the length (ß, ligatures): not "an upper-case form" of the entry
        ctx.class("form_changes_length");
        return Ok(());
    }
    let text = format!("{}{}{}", c.prefix, shown, c.postfix);
    let start = c.prefix.chars().count();
    let end = start + shown.chars().count();
    let lints = spell_lints(&text, c.dialect);
    ctx.class_if(meta.derived_from.is_some(), "affix_derived");
    ctx.class_if(meta.dialect.is_some(), "dialect_tagged");
    ctx.class_if(!c.word.is_ascii() || c.word.contains('\''), "non_ascii_or_apostrophe");
    ctx.class_if(c.form != 0, "recased");
    ctx.class_if(!c.prefix.is_empty(), "in_sentence");
    if meta.derived_from.is_some() || meta.dialect.is_some() || !c.word.is_ascii() || c.word.contains('\'') {
        ctx.nontrivial(&(&c.word, c.dialect, c.form, &c.prefix));
    }
    if let Some(l) = lints.iter().find(|l| l.span.start < end && start < l.span.end) {
        if known_multi_token().contains(&c.word) {
            ctx.known(KF_MULTI);
            return Ok(());
        }
        return Err(format!(
            "dictionary entry {:?} (shown as {:?}, dialect {:?}) is reported as misspelt in {:?}: lint {}..{} {:?}",
            c.word, shown, active, text, l.span.start, l.span.end, l.message
        ));
    }
    Ok(())
}

#[derive(Debug, Clone, Serialize, Deserialize, PartialEq, Eq, Hash)]
pub struct NonWordCase {
    pub word: String,
    pub dialect: u8,
    pub prefix: String,
    pub postfix: String,
}

/// (<-) a Latin-alphabet string the dictionary does not contain is reported, exactly
pub fn test_nonword(c: &NonWordCase, ctx: &mut CaseCtx) -> Result<(), String> {
    let dict = FstDictionary::curated();
    let wc = chars(&c.word);
    if wc.is_empty() || !wc.iter().all(|ch| ch.is_ascii_alphabetic()) || dict.contains_word(&wc) {
        ctx.class("out_of_domain_is_a_word");
        return Ok(());
    }
    // single-letter strings followed by '.' are condensed as initialisms; keep to len>=2
    if wc.len() < 2 {
        ctx.class("out_of_domain_too_short");
        return Ok(());
    }
    let text = format!("{}{}{}", c.prefix, c.word, c.postfix);
    let start = c.prefix.chars().count();
    let end = start + wc.len();
    let active = DIALECTS[c.dialect as usize % 4];
    let lints = spell_lints(&text, c.dialect);
    let on_word: Vec<&Lint> = lints
        .iter()
        .filter(|l| l.span.start < end && start < l.span.end)
        .collect();
    let near = dict.fuzzy_match(&wc, 1, 1).len() == 1;
    ctx.class_if(near, "edit_distance_1_from_a_word");
    ctx.class_if(!c.prefix.is_empty(), "in_sentence");
    if near {
        ctx.nontrivial(&(&c.word, c.dialect, &c.prefix));
    }
    if on_word.len() != 1 {
        return Err(format!(
            "non-word {:?} in {:?}: expected exactly one spelling lint on it, got {} ({:?})",
            c.word,
            text,
            on_word.len(),
            on_word.iter().map(|l| (l.span.start, l.span.end)).collect::<Vec<_>>()
        ));
    }
    let l = on_word[0];
    if (l.span.start, l.span.end) != (start, end) {
        return Err(format!(
            "non-word {:?} in {:?}: lint span {}..{} is not exactly the word {}..{}",
            c.word, text, l.span.start, l.span.end, start, end
        ));
    }
    let check_suggestions = |l: &Lint, pass: &str| -> Result<(), String> {
        for s in &l.suggestions {
            let Suggestion::ReplaceWith(r) = s else {
                return Err(format!("spelling suggestion {s:?} is not a replacement"));
            };
            let mut lf = r.clone();
            if let Some(f) = lf.first_mut() {
                *f = f.to_lowercase().next().unwrap_or(*f);
            }
            let ok = dict.contains_exact_word(r) || dict.contains_exact_word(&lf);
            let meta_ok = dict
                .get_word_metadata(r)
                .is_some_and(|m| m.dialect.is_none_or(|d| d == active));
            if !ok || !meta_ok {
                return Err(format!(
                    "{pass}: suggestion {:?} for {:?} (dialect {:?}) is not a dictionary word of the active dialect (exact={ok}, dialect_ok={meta_ok})",
                    r.iter().collect::<String>(),
                    c.word,
                    active
                ));
            }
        }
        Ok(())
    };
    check_suggestions(l, "first check")?;
    // the same linter checks the same word again (every re-lint in an editor does): the answer
    // must obey the same rules when it comes out of the linter's caches
    let again = spell_lints(&format!("{text} And {} again.", c.word), c.dialect);
    let mut seen = 0;
    for l2 in again.iter().filter(|l| {
        let cs: Vec<char> = format!("{text} And {} again.", c.word).chars().collect();
        cs[l.span.start..l.span.end.min(cs.len())] == wc[..]
    }) {
        seen += 1;
        check_suggestions(l2, "checked again by the same linter")?;
    }
    if seen != 2 {
        return Err(format!("non-word {:?} occurs twice in the second text but {seen} occurrences are reported", c.word));
    }
    Ok(())
}

#[derive(Debug, Clone, Serialize, Deserialize, PartialEq, Eq, Hash)]
pub struct MixCase {
    pub words: Vec<String>,
    pub dialect: u8,
}

/// The verdict on a word occurrence does not depend on the other words of the document:
/// each word is flagged in the mixed document iff it is flagged alone.
pub fn test_context_free(c: &MixCase, ctx: &mut CaseCtx) -> Result<(), String> {
    let words: Vec<&String> = c
        .words
        .iter()
        .filter(|w| !w.is_empty() && w.chars().all(|ch| ch.is_alphabetic()))
        .collect();
    if words.len() < 2 {
        ctx.class("too_few_words");
        return Ok(());
    }
    let mut text = String::from("We saw ");
    let mut spans = vec![];
    for (i, w) in words.iter().enumerate() {
        let start = text.chars().count();
        text.push_str(w);
        spans.push((start, start + w.chars().count()));
        text.push_str(if i + 1 < words.len() { " and " } else { " today." });
    }
    let lints = spell_lints(&text, c.dialect);
    let lower: Vec<String> = words.iter().map(|w| w.to_lowercase()).collect();
    let case_variants = (0..words.len()).any(|i| (0..i).any(|j| lower[i] == lower[j] && words[i] != words[j]));
    ctx.class_if(case_variants, "case_variants_of_one_word");
    let mut any_flagged = false;
    let mut any_clean = false;
    for (w, (s, e)) in words.iter().zip(&spans) {
        let alone = !spell_lints(&format!("We saw {w} today."), c.dialect)
            .iter()
            .all(|l| !(l.span.start < 7 + w.chars().count() && 7 < l.span.end));
        let here = lints.iter().any(|l| l.span.start < *e && *s < l.span.end);
        any_flagged |= alone;
        any_clean |= !alone;
        if alone != here {
            return Err(format!(
                "{w:?} is {} on its own but {} inside {text:?}",
                if alone { "reported" } else { "accepted" },
                if here { "reported" } else { "accepted" }
            ));
        }
    }
    ctx.class_if(any_flagged && any_clean, "mixed_verdicts");
    if case_variants || (any_flagged && any_clean) {
        ctx.nontrivial(c);
    }
    Ok(())
}

/// Noun-phrase and other grammatical surroundings in which the tokens around a word are
/// re-interpreted by the parser (determiner + word + noun, …); the word itself stays one token.
const PHRASES: &[(&str, &str)] = &[
    ("The ", " wheel is here."),
    ("She bought a ", " book."),
    ("It was my ", " place."),
    ("This ", " scheme works well."),
    ("We repainted the ", " wheel"),
    ("Do you like the ", "?"),
    ("An ", " of the best kind."),
    ("a ", " b"),
];

#[derive(Debug, Clone, Serialize, Deserialize, PartialEq, Eq, Hash)]
pub struct DialectWord {
    pub word: String,
    pub dialect: u8,
}

/// Whether a word is reported depends on the word, the dictionary and the dialect — not on its
/// neighbours: every dialect-tagged entry gets the same verdict alone and inside noun phrases.
pub fn test_dialect_word(c: &DialectWord, ctx: &mut CaseCtx) -> Result<(), String> {
    let n = c.word.chars().count();
    let alone = !spell_lints(&c.word, c.dialect).is_empty();
    ctx.class(if alone { "reported_in_this_dialect" } else { "accepted_in_this_dialect" });
    ctx.nontrivial(c);
    for (pre, post) in PHRASES {
        let text = format!("{pre}{}{post}", c.word);
        let s = pre.chars().count();
        let here = spell_lints(&text, c.dialect).iter().any(|l| l.span.start < s + n && s < l.span.end);
        if here != alone {
            return Err(format!(
                "{:?} (dialect {:?}) is {} on its own but {} inside {text:?}",
                c.word,
                DIALECTS[c.dialect as usize % 4],
                if alone { "reported" } else { "accepted" },
                if here { "reported" } else { "accepted" }
            ));
        }
    }
    Ok(())
}

#[derive(Debug, Clone, Serialize, Deserialize, PartialEq, Eq, Hash)]
pub struct UserWord {
    /// words of the user's dictionary, in the capitalisation the user chose
    pub user: Vec<String>,
    pub dialect: u8,
    pub frame: (String, String),
}

/// The active dictionary of every integration is the curated dictionary merged with the user's
/// words: a user word in its listed capitalisation is never reported, whatever the curated
/// dictionary holds under the same letters.
pub fn test_user_word(c: &UserWord, ctx: &mut CaseCtx) -> Result<(), String> {
    use harper_core::{MergedDictionary, MutableDictionary, WordMetadata};
    use std::sync::Arc;
    let mut user = MutableDictionary::new();
    user.extend_words(c.user.iter().map(|w| (w.chars().collect::<Vec<char>>(), WordMetadata::default())));
    let mut m = MergedDictionary::new();
    m.add_dictionary(FstDictionary::curated());
    m.add_dictionary(Arc::new(user));
    let m = Arc::new(m);
    let mut group = LintGroup::new_curated(m.clone(), DIALECTS[c.dialect as usize % 4]);
    group.config = crate::generators::ConfigSpec::only(&["SpellCheck"]).build();
    let curated = FstDictionary::curated();
    // the listed form, and for a lower-case entry also its capitalised and upper-case forms
    let mut forms: Vec<String> = vec![];
    for w in &c.user {
        forms.push(w.clone());
        if w.chars().all(|ch| !ch.is_uppercase()) {
            forms.push(apply_form(w, 1));
            forms.push(apply_form(w, 2));
            ctx.class("recased_form_of_a_lower_case_user_word");
        }
    }
    for w in &forms {
        let text = format!("{}{w}{}", c.frame.0, c.frame.1);
        let s = c.frame.0.chars().count();
        let n = w.chars().count();
        let doc = Document::new(&text, &PlainEnglish, &m);
        let hit = group.lint(&doc).into_iter().find(|l| l.lint_kind == LintKind::Spelling && l.span.start < s + n && s < l.span.end);
        use harper_core::Dictionary;
        let cs: Vec<char> = w.chars().collect();
        if curated.contains_word(&cs) && !curated.contains_exact_word(&cs) {
            ctx.class("recapitalised_curated_entry");
            ctx.nontrivial(c);
        }
        if let Some(l) = hit {
            return Err(format!(
                "the user dictionary lists {w:?} or its lower-case form (all user words: {:?}) yet it is reported in {text:?}: {}",
                c.user, l.message
            ));
        }
    }
    Ok(())
}

fn user_word_strategy() -> BoxedStrategy<UserWord> {
    let recased = (g::dict_word(), 0u8..4).prop_map(|(w, m)| match m {
        0 | 1 => w.to_lowercase(),
        2 => w.to_uppercase(),
        _ => w.chars().enumerate().map(|(i, c)| if i == 1 { c.to_uppercase().next().unwrap_or(c) } else { c }).collect(),
    });
    let word = prop_oneof![
        4 => recased,
        2 => g::sel_str(&["markdown", "github", "javascript", "linux", "paris", "KUBERNETES", "iphone", "MONDAY", "nasa"]),
        2 => g::near_word(),
    ]
    .prop_filter("single alphabetic token", |w| !w.is_empty() && w.chars().all(|c| c.is_alphabetic()));
    (proptest::collection::vec(word, 1..4), 0u8..4, frame())
        .prop_map(|(user, dialect, frame)| UserWord { user, dialect, frame })
        .boxed()
}

fn tagged_entries() -> &'static Vec<String> {
    static T: std::sync::OnceLock<Vec<String>> = std::sync::OnceLock::new();
    T.get_or_init(|| {
        let dict = FstDictionary::curated();
        g::harvest()
            .dict_words
            .iter()
            .filter(|w| w.chars().all(|c| c.is_ascii_alphabetic()) && w.len() > 3)
            .filter(|w| dict.get_word_metadata_str(w).is_some_and(|m| m.dialect.is_some()))
            .cloned()
            .collect()
    })
}

const FRAMES: &[(&str, &str)] = &[
    ("The ", " is here."),
    ("We saw a ", " today"),
    ("", " works."),
    ("Is it ", "?"),
    ("(", ")"),
    ("First line.\n\nThen ", ", again."),
    ("Ünï 😀 ", " ok"),
];

fn frame() -> BoxedStrategy<(String, String)> {
    (0..FRAMES.len())
        .prop_map(|i| (FRAMES[i].0.to_string(), FRAMES[i].1.to_string()))
        .boxed()
}

pub fn run(run: &mut Run) {
    run.rule = "(->) exhaustive: every entry of the curated dictionary (words_iter) x 4 dialects alone as a document, lower-case entries also Capitalised and UPPER; random: entries at positions inside 7 sentence frames. Ground truth is the dictionary's own word list and metadata. dialect_entries_in_noun_phrases: every single-token entry that carries a dialect tag x 4 dialects (exhaustive) alone and inside 8 noun-phrase frames (determiner + word + noun, ...): the verdict must not depend on the neighbours. user_dictionary_entries: the curated dictionary merged with 1-3 user words (re-capitalised curated entries, non-words): a user word in its listed capitalisation, and the capitalised / upper-case form of a lower-case user word, is never reported. (<-) ASCII-letter strings the dictionary does not contain under any capitalisation (random strings and one-edit neighbours of dictionary words, by construction then a membership test) alone and in frames: exactly one Spelling lint with exactly the word's span, every suggestion a dictionary word of the active dialect. Non-trivial (->) = affix-derived, dialect-tagged, non-ASCII or apostrophe entry; (<-) = edit distance 1 from a real word.".into();
    let h = g::harvest();
    if !run.strict && run.known.get(KF_MULTI).is_some() {
        let w = WordCase { word: "Wi-Fi's".into(), dialect: 0, form: 0, prefix: String::new(), postfix: String::new() };
        let _ = run.single("known_witnesses", &w, test_listed);
    }
    let mut cases = Vec::with_capacity(h.dict_words.len() * 12);
    let quick = run.tier == crate::core::Tier::Quick;
    for (wi, w) in h.dict_words.iter().enumerate() {
        for dialect in 0..4u8 {
            for form in 0..3u8 {
                if form > 0 && w.chars().any(|c| c.is_uppercase()) {
                    continue;
                }
                // quick tier: listed form in all 4 dialects; re-cased forms in one seed-chosen dialect
                if quick && form > 0 && (crate::core::mix(run.seed, wi as u64) % 4) as u8 != dialect {
                    continue;
                }
                cases.push(WordCase {
                    word: w.clone(),
                    dialect,
                    form,
                    prefix: String::new(),
                    postfix: String::new(),
                });
            }
        }
    }
    let ok = run.enumerate("every_entry_alone", &cases, true, test_listed);
    drop(cases);
    if let Some(st) = run.stats.iter_mut().find(|s| s.name == "every_entry_alone") {
        st.exhaustive = ok && !quick;
        st.note = Some(format!(
            "{} dictionary entries x 4 dialects in listed form; re-cased forms {}",
            h.dict_words.len(),
            if quick { "in 1 of 4 dialects" } else { "in all dialects" }
        ));
    }
    // every entry that carries a dialect tag (single-token ones), in all four dialects
    {
        let dict = FstDictionary::curated();
        let mut cases = vec![];
        for w in &h.dict_words {
            if !w.chars().all(|c| c.is_alphabetic()) {
                continue;
            }
            let tagged = dict.get_word_metadata_str(w).is_some_and(|m| m.dialect.is_some());
            if tagged {
                for dialect in 0..4u8 {
                    cases.push(DialectWord { word: w.clone(), dialect });
                }
            }
        }
        run.enumerate("dialect_entries_in_noun_phrases", &cases, true, test_dialect_word);
        run.require_class("dialect_entries_in_noun_phrases", "reported_in_this_dialect", 1000);
        run.require_class("dialect_entries_in_noun_phrases", "accepted_in_this_dialect", 300);
    }
    let n = run.n(4_000, 200_000);
    run.prop("user_dictionary_entries", n, user_word_strategy, test_user_word);
    run.require_class("user_dictionary_entries", "recapitalised_curated_entry", (n / 10) as u64);
    let n = run.n(40_000, 1_000_000);
    run.prop(
        "entry_in_sentence",
        n,
        || {
            (g::dict_word(), 0u8..4, 0u8..3, frame())
                .prop_map(|(word, dialect, form, (prefix, postfix))| WordCase {
                    word,
                    dialect,
                    form,
                    prefix,
                    postfix,
                })
                .boxed()
        },
        test_listed,
    );
    run.require_class("entry_in_sentence", "affix_derived", (n / 10) as u64);
    run.require_class("entry_in_sentence", "recased", (n / 10) as u64);

    let n = run.n(8_000, 300_000);
    run.prop(
        "verdict_is_context_free",
        n,
        || {
            let recased = (g::dict_word(), 0u8..4).prop_map(|(w, m)| match m {
                0 => w,
                1 => w.to_lowercase(),
                2 => w.to_uppercase(),
                _ => {
                    let mut c = w.chars();
                    match c.next() {
                        Some(f) => f.to_uppercase().collect::<String>() + c.as_str(),
                        None => w,
                    }
                }
            });
            // a base word in 2-3 case forms, mixed with other words and non-words
            (
                g::dict_word(),
                proptest::collection::vec(0u8..4, 1..4),
                proptest::collection::vec(prop_oneof![2 => recased, 1 => g::near_word(), 1 => g::plain_word()], 0..4),
                any::<u64>(),
                0u8..4,
            )
                .prop_map(|(base, forms, mut others, salt, dialect)| {
                    let mut words: Vec<String> = forms
                        .iter()
                        .map(|m| match m {
                            0 => base.clone(),
                            1 => base.to_lowercase(),
                            2 => base.to_uppercase(),
                            _ => {
                                let mut c = base.chars();
                                match c.next() {
                                    Some(f) => f.to_uppercase().collect::<String>() + &c.as_str().to_lowercase(),
                                    None => base.clone(),
                                }
                            }
                        })
                        .collect();
                    words.append(&mut others);
                    // deterministic shuffle
                    let n = words.len();
                    for i in (1..n).rev() {
                        let j = (crate::core::mix(salt, i as u64) % (i as u64 + 1)) as usize;
                        words.swap(i, j);
                    }
                    MixCase { words, dialect }
                })
                .boxed()
        },
        test_context_free,
    );
    run.require_class("verdict_is_context_free", "case_variants_of_one_word", (n / 5) as u64);
    run.require_class("verdict_is_context_free", "mixed_verdicts", (n / 10) as u64);

    let n = run.n(6_000, 200_000);
    run.prop(
        "non_words_are_reported",
        n,
        || {
            let w = prop_oneof![
                3 => g::near_word(),
                3 => (any::<u16>(), any::<u16>(), 0u8..3, 0u8..26).prop_map(|(pick, pos, op, letter)| {
                    // one edit away from an entry that is tagged with a dialect
                    let tagged = tagged_entries();
                    let mut c: Vec<char> = tagged[crate::core::pick_idx(pick, tagged.len())].chars().collect();
                    let p = crate::core::pick_idx(pos, c.len().max(1));
                    let l = (b'a' + letter) as char;
                    match op {
                        0 if c.len() > 2 => {
                            c.remove(p);
                        }
                        1 => c.insert(p, l),
                        _ => c[p] = l,
                    }
                    c.into_iter().collect::<String>()
                }),
                1 => "[a-z]{2,10}",
                1 => "[A-Z][a-z]{1,8}",
                1 => g::near_word().prop_map(|w| w.to_uppercase()),
                1 => (g::plain_word(), g::plain_word()).prop_map(|(a, b)| a + &b),
            ];
            (
                w,
                0u8..4,
                prop_oneof![2 => Just((String::new(), String::new())), 3 => frame()],
            )
                .prop_map(|(word, dialect, (prefix, postfix))| NonWordCase {
                    word,
                    dialect,
                    prefix,
                    postfix,
                })
                .boxed()
        },
        test_nonword,
    );
    run.require_class("non_words_are_reported", "edit_distance_1_from_a_word", (n / 5) as u64);
}

pub fn replay(check: &str, case: Value, run: &mut Run) -> Result<(), String> {
    let mut ctx = CaseCtx::default();
    let r = if check == "user_dictionary_entries" {
        let c: UserWord = serde_json::from_value(case).map_err(|e| e.to_string())?;
        test_user_word(&c, &mut ctx)
    } else if check == "dialect_entries_in_noun_phrases" {
        let c: DialectWord = serde_json::from_value(case).map_err(|e| e.to_string())?;
        test_dialect_word(&c, &mut ctx)
    } else if check == "verdict_is_context_free" {
        let c: MixCase = serde_json::from_value(case).map_err(|e| e.to_string())?;
        test_context_free(&c, &mut ctx)
    } else if check == "non_words_are_reported" {
        let c: NonWordCase = serde_json::from_value(case).map_err(|e| e.to_string())?;
        test_nonword(&c, &mut ctx)
    } else {
        let c: WordCase = serde_json::from_value(case).map_err(|e| e.to_string())?;
        test_listed(&c, &mut ctx)
    };
    if run.strict && !ctx.known_hits.is_empty() {
        return Err(format!("reproduces known finding {:?}", ctx.known_hits));
    }
    r
}

/// Helper used once to produce the entry list of KF-C06-multi-token-entries (not a check).
pub fn list_flagged_entries() {
    use std::sync::Mutex;
    let h = g::harvest();
    let out: Mutex<std::collections::BTreeSet<String>> = Mutex::new(Default::default());
    let words = &h.dict_words;
    std::thread::scope(|sc| {
        for chunk in words.chunks(words.len().div_ceil(16)) {
            let out = &out;
            sc.spawn(move || {
                for w in chunk {
                    'w: for dialect in 0..4u8 {
                        for form in 0..3u8 {
                            for (pre, post) in [("", "")].iter().chain(FRAMES.iter()) {
                                let c = WordCase { word: w.clone(), dialect, form, prefix: pre.to_string(), postfix: post.to_string() };
                                let mut ctx = CaseCtx::default();
                                if test_listed(&c, &mut ctx).is_err() {
                                    out.lock().unwrap().insert(w.clone());
                                    break 'w;
                                }
                            }
                        }
                    }
                }
            });
        }
    });
    let v: Vec<String> = out.into_inner().unwrap().into_iter().collect();
    println!("{}", serde_json::to_string(&v).unwrap());
}
