//! C14 — ignoring a lint hides that lint, only that lint, and keeps hiding it.

use harper_core::linting::{Lint, LintGroup, Linter};
use harper_core::parsers::{Markdown, MarkdownOptions, Parser, PlainEnglish};
use harper_core::{Dialect, Document, FstDictionary, IgnoredLints};
use proptest::prelude::*;
use serde::{Deserialize, Serialize};
use serde_json::Value;

use crate::core::{CaseCtx, Run};
use crate::generators as g;

#[derive(Debug, Clone, Serialize, Deserialize, PartialEq, Eq, Hash)]
pub struct IgnoreCase {
    pub text: String,
    pub markdown: bool,
    /// bit i set = ignore lint i (mod number of lints)
    pub mask: u64,
    pub prepend: Option<String>,
    pub append: Option<String>,
}

fn doc_of(text: &str, markdown: bool) -> Document {
    let dict = FstDictionary::curated();
    let parser: Box<dyn Parser> = if markdown {
        Box::new(Markdown::new(MarkdownOptions::default()))
    } else {
        Box::new(PlainEnglish)
    };
    Document::new(text, &parser, &dict)
}

fn lint_doc(doc: &Document) -> Vec<Lint> {
    thread_local! {
        static GROUP: std::cell::RefCell<Option<LintGroup>> = const { std::cell::RefCell::new(None) };
    }
    GROUP.with(|g| {
        let mut slot = g.borrow_mut();
        let mut group = slot.take().unwrap_or_else(|| {
            LintGroup::new_curated(FstDictionary::curated(), Dialect::American)
        });
        let l = group.lint(doc);
        *slot = Some(group);
        l
    })
}

/// texts of the tokens intersecting [a, b)
fn window_texts(doc: &Document, a: usize, b: usize) -> Vec<String> {
    let src = doc.get_source();
    doc.get_tokens()
        .iter()
        .filter(|t| t.span.start < b && a < t.span.end)
        .map(|t| src[t.span.start..t.span.end.min(src.len())].iter().collect())
        .collect()
}

/// Independent notion of "the same lint": equal kind, message, suggestions, priority and equal
/// text of the tokens intersecting the span, the 2 chars before it and the 2 chars after it.
#[derive(PartialEq, Eq, Debug, Clone)]
pub struct Identity {
    fields: String,
    before: Vec<String>,
    at: Vec<String>,
    after: Vec<String>,
}

pub fn identity(l: &Lint, doc: &Document) -> Identity {
    let mut f = l.clone();
    f.span = Default::default();
    let n = doc.get_source().len();
    Identity {
        fields: serde_json::to_string(&f).unwrap_or_default(),
        before: window_texts(doc, l.span.start.saturating_sub(2), l.span.start),
        at: window_texts(doc, l.span.start, l.span.end),
        after: window_texts(doc, l.span.end, (l.span.end + 2).min(n.max(l.span.end + 2))),
    }
}

pub fn test_ignore(c: &IgnoreCase, ctx: &mut CaseCtx) -> Result<(), String> {
    let doc = doc_of(&c.text, c.markdown);
    let lints = match crate::core::catch(|| lint_doc(&doc)) {
        Ok(l) => l,
        Err(_) => {
            ctx.class("skipped_c01_panic");
            return Ok(());
        }
    };
    if lints.is_empty() {
        ctx.class("no_lints");
        return Ok(());
    }
    let n_chars = doc.get_source().len();
    let ids: Vec<Identity> = lints.iter().map(|l| identity(l, &doc)).collect();
    let chosen: Vec<usize> = (0..lints.len())
        .filter(|i| c.mask >> (i % 64) & 1 == 1)
        .collect();
    let mut ignored = IgnoredLints::new();
    for &i in &chosen {
        ignored.ignore_lint(&lints[i], &doc);
    }
    let twins = (0..lints.len()).any(|i| {
        (0..lints.len()).any(|j| i != j && ids[i].fields == ids[j].fields && ids[i] != ids[j])
    });
    let quote_near = lints.iter().any(|l| {
        let a = l.span.start.saturating_sub(2);
        let b = (l.span.end + 2).min(n_chars);
        doc.get_source()[a..b].iter().any(|ch| matches!(ch, '"' | '“' | '”'))
    });
    ctx.class_if(twins, "equal_fields_different_neighbourhood");
    ctx.class_if(quote_near, "quote_in_neighbourhood");
    ctx.class_if(c.prepend.is_some(), "prepend_edit");
    ctx.class_if(!chosen.is_empty(), "ignored_some");
    ctx.class_if(chosen.len() < lints.len(), "kept_some");
    if !chosen.is_empty() && (twins || quote_near || c.prepend.is_some()) {
        ctx.nontrivial(c);
    }

    let check_filter = |ign: &IgnoredLints, label: &str| -> Result<(), String> {
        let mut rest = lints.clone();
        ign.remove_ignored(&mut rest, &doc);
        for (i, l) in lints.iter().enumerate() {
            let still = rest.contains(l);
            if chosen.contains(&i) {
                if still {
                    return Err(format!(
                        "[{label}] ignored lint #{i} {}..{} {:?} is still reported",
                        l.span.start, l.span.end, l.message
                    ));
                }
            } else if !still && !chosen.iter().any(|&s| ids[s] == ids[i]) {
                return Err(format!(
                    "[{label}] lint #{i} {}..{} {:?} was hidden although it differs from every ignored lint in message, kind, suggestions or surrounding words (its neighbourhood: {:?} | {:?} | {:?}; ignored: {:?})",
                    l.span.start, l.span.end, l.message, ids[i].before, ids[i].at, ids[i].after,
                    chosen.iter().map(|&s| (&ids[s].before, &ids[s].at, &ids[s].after)).collect::<Vec<_>>()
                ));
            }
        }
        Ok(())
    };
    // (a)
    check_filter(&ignored, "same text")?;
    // (b) export / import
    let json = serde_json::to_string(&ignored).map_err(|e| e.to_string())?;
    let restored: IgnoredLints = serde_json::from_str(&json).map_err(|e| format!("import failed: {e}"))?;
    check_filter(&restored, "after JSON export/import")?;
    // the way the integrations import: append the deserialised list to a fresh instance
    let mut appended = IgnoredLints::new();
    appended.append(serde_json::from_str(&json).map_err(|e| format!("import failed: {e}"))?);
    check_filter(&appended, "after JSON export and append to a fresh list")?;
    let json2 = serde_json::to_string(&restored).map_err(|e| e.to_string())?;
    let mut a: Vec<u64> = serde_json::from_str::<Value>(&json)
        .ok()
        .and_then(|v| v.as_object().and_then(|o| o.values().next().cloned()))
        .and_then(|v| serde_json::from_value(v).ok())
        .unwrap_or_default();
    let mut b: Vec<u64> = serde_json::from_str::<Value>(&json2)
        .ok()
        .and_then(|v| v.as_object().and_then(|o| o.values().next().cloned()))
        .and_then(|v| serde_json::from_value(v).ok())
        .unwrap_or_default();
    a.sort();
    b.sort();
    if a != b {
        return Err("ignore list changed by a JSON round trip".to_string());
    }

    // (c) edits elsewhere
    if c.prepend.is_none() && c.append.is_none() {
        return Ok(());
    }
    let pre = c.prepend.clone().map(|p| p + "\n\n").unwrap_or_default();
    let post = c.append.clone().map(|p| format!("\n\n{p}")).unwrap_or_default();
    let off = pre.chars().count();
    let edited = format!("{pre}{}{post}", c.text);
    let doc2 = doc_of(&edited, c.markdown);
    let lints2 = match crate::core::catch(|| lint_doc(&doc2)) {
        Ok(l) => l,
        Err(_) => return Ok(()),
    };
    let mut rest2 = lints2.clone();
    restored.remove_ignored(&mut rest2, &doc2);
    for (i, l) in lints.iter().enumerate() {
        // only lints whose neighbourhood windows lie fully inside the original text, 3+ chars
        // away from the edit boundaries, so that no token within two characters is touched
        if l.span.start < 3 || l.span.end + 3 > n_chars {
            continue;
        }
        let mut shifted = l.clone();
        shifted.span.start += off;
        shifted.span.end += off;
        if !lints2.contains(&shifted) {
            // whether the lint itself survives the edit is C12's business
            continue;
        }
        if identity(&shifted, &doc2) != ids[i] {
            continue; // neighbourhood not identical (e.g. a token reaching to the boundary)
        }
        ctx.class("edit_checked_lint");
        let still = rest2.contains(&shifted);
        if chosen.contains(&i) && still {
            return Err(format!(
                "ignored lint #{i} {}..{} {:?} is reported again after unrelated text was {} (flagged text and neighbourhood untouched)",
                l.span.start, l.span.end, l.message,
                if c.prepend.is_some() { "prepended" } else { "appended" }
            ));
        }
        if !chosen.contains(&i) && !still {
            let hidden_by_same = chosen.iter().any(|&s| ids[s] == ids[i]);
            if !hidden_by_same {
                return Err(format!(
                    "lint #{i} {}..{} {:?} is hidden after the edit although it differs from every ignored lint",
                    l.span.start, l.span.end, l.message
                ));
            }
        }
    }
    Ok(())
}

const ERRORS: &[&str] = &[
    "teh", "recieve", "an problem", "a apple", "could of", "the the", "there fore", "alot", "wich",
    "1nd", "seperate", "to to", "definately", "an user", "more then",
];

fn repeated_problem_text() -> BoxedStrategy<String> {
    let piece = |e: String| {
        (
            g::plain_word(),
            g::plain_word(),
            g::sel_str(&["", "", "\"", "(", "“"]),
            g::sel_str(&["", "", "\"", ")", "”", ","]),
            any::<bool>(),
        )
            .prop_map(move |(a, b, ql, qr, same)| {
                if same {
                    format!("The {ql}{e}{qr} cat.")
                } else if ql == "(" && !qr.is_empty() {
                    // an opaque neighbour (inline code in Markdown) whose content differs
                    format!("Call `{a}` {e} `{b}` now.")
                } else {
                    format!("My {a} {ql}{e}{qr} {b}.")
                }
            })
    };
    g::sel_str(ERRORS)
        .prop_flat_map(move |e| proptest::collection::vec(piece(e), 2..4))
        .prop_map(|v| v.join(" "))
        .boxed()
}

fn clean_paragraph() -> BoxedStrategy<String> {
    prop_oneof![
        2 => Just("This is fine.".to_string()),
        2 => g::harvested_sentence().prop_map(|s| s.replace("\n\n", " ").trim().to_string()),
        1 => Just("She said \"hello\" to me.".to_string()),
        1 => Just("An unbalanced \" quote here.".to_string()),
        1 => repeated_problem_text(),
    ]
    .prop_map(|s| if s.trim().is_empty() { "Ok.".to_string() } else { s })
    .boxed()
}

/// two over-long sentences that are equal except in the middle
fn twin_long_sentences() -> BoxedStrategy<String> {
    (proptest::collection::vec(g::plain_word(), 18..24), g::plain_word(), g::plain_word(), proptest::collection::vec(g::plain_word(), 18..24), g::sel_str(&[" ", "\n\n"]))
        .prop_map(|(a, m1, m2, b, sep)| {
            let head = a.join(" ");
            let tail = b.join(" ");
            let cap = |s: &str| {
                let mut c = s.chars();
                c.next().map(|f| f.to_uppercase().collect::<String>() + c.as_str()).unwrap_or_default()
            };
            format!("{} and {m1} with the {tail}.{sep}{} and {m2} with the {tail}.", cap(&head), cap(&head))
        })
        .boxed()
}

fn ignore_strategy() -> BoxedStrategy<IgnoreCase> {
    let text = prop_oneof![
        1 => twin_long_sentences(),
        5 => repeated_problem_text(),
        3 => g::text().prop_map(|t| t.trim().to_string()),
        1 => (repeated_problem_text(), g::sentence()).prop_map(|(a, b)| format!("{a} {}", b.trim())),
    ];
    (
        text,
        prop::bool::weighted(0.3),
        prop_oneof![any::<u64>(), Just(1u64), Just(2u64), Just(u64::MAX)],
        proptest::option::weighted(0.5, clean_paragraph()),
        proptest::option::weighted(0.3, clean_paragraph()),
    )
        .prop_map(|(text, markdown, mask, prepend, append)| IgnoreCase {
            text,
            markdown,
            mask,
            prepend,
            append,
        })
        .boxed()
}

/// The same problem in two texts that differ right next to it (document start at 0-3 characters
/// before the lint, other punctuation, other language): what was ignored in the first text may
/// hide in the second only lints with the same identity.
#[derive(Debug, Clone, Serialize, Deserialize, PartialEq, Eq, Hash)]
pub struct AcrossCase {
    pub core: String,
    pub first: (String, String, bool),
    pub second: (String, String, bool),
}

pub fn test_across(c: &AcrossCase, ctx: &mut CaseCtx) -> Result<(), String> {
    let t1 = format!("{}{}{}", c.first.0, c.core, c.first.1);
    let t2 = format!("{}{}{}", c.second.0, c.core, c.second.1);
    let d1 = doc_of(&t1, c.first.2);
    let d2 = doc_of(&t2, c.second.2);
    let (Ok(l1), Ok(l2)) = (crate::core::catch(|| lint_doc(&d1)), crate::core::catch(|| lint_doc(&d2))) else {
        ctx.class("skipped_c01_panic");
        return Ok(());
    };
    if l1.is_empty() || l2.is_empty() {
        ctx.class("no_lints");
        return Ok(());
    }
    let mut ignored = IgnoredLints::new();
    for l in &l1 {
        ignored.ignore_lint(l, &d1);
    }
    let ids1: Vec<Identity> = l1.iter().map(|l| identity(l, &d1)).collect();
    let mut rest = l2.clone();
    ignored.remove_ignored(&mut rest, &d2);
    let mut differing = false;
    for l in &l2 {
        let id = identity(l, &d2);
        let twin = ids1.iter().any(|i| *i == id);
        let near_twin = !twin && ids1.iter().any(|i| i.fields == id.fields && i.at == id.at);
        if near_twin {
            differing = true;
            if l.span.start <= 2 || l1.iter().any(|x| x.span.start <= 2) {
                ctx.class("same_lint_other_neighbour_at_document_start");
            }
        }
        if !twin && !rest.contains(l) {
            return Err(format!(
                "every lint of {t1:?} ({}) was ignored; in {t2:?} ({}) the lint {}..{} {:?} is hidden although no ignored lint has its message, kind, suggestions and surrounding tokens (its neighbourhood: {:?} | {:?} | {:?}; ignored with the same fields: {:?})",
                if c.first.2 { "markdown" } else { "plain" },
                if c.second.2 { "markdown" } else { "plain" },
                l.span.start, l.span.end, l.message, id.before, id.at, id.after,
                ids1.iter().filter(|i| i.fields == id.fields).map(|i| (&i.before, &i.at, &i.after)).collect::<Vec<_>>()
            ));
        }
    }
    if differing {
        ctx.class("same_lint_other_neighbour");
        ctx.nontrivial(c);
    }
    Ok(())
}

fn across_strategy() -> BoxedStrategy<AcrossCase> {
    const PRE: &[&str] = &["", "", " ", "  ", "(", "\"", "A ", "x", "- ", "> ", "So ", "1 ", "* ", "\n", "é "];
    const POST: &[&str] = &["", ".", " now.", ")", "\"", "!!", " <b>x</b>", ", ok", "\n"];
    let core = (g::sel_str(ERRORS), g::plain_word(), any::<bool>()).prop_map(|(e, w, cap)| {
        if cap {
            let mut cs = e.chars();
            let f: String = cs.next().map(|c| c.to_uppercase().collect()).unwrap_or_default();
            format!("{f}{} {w}", cs.as_str())
        } else {
            format!("{e} {w}")
        }
    });
    let side = || (g::sel_str(PRE), g::sel_str(POST), prop::bool::weighted(0.4));
    (core, side(), side())
        .prop_map(|(core, first, second)| AcrossCase { core, first, second })
        .boxed()
}

// ------------------------------------------------------------------------------------------------
// through the language server: ignore, then keep editing other parts of the file

#[derive(Debug, Clone, Serialize, Deserialize, PartialEq, Eq, Hash)]
pub struct LsIgnoreCase {
    /// 0 rust, 1 python, 2 plain text, 3 markdown
    pub lang: u8,
    /// which of the published diagnostics is ignored
    pub sel: u16,
    /// edits applied one after the other: 0 append a function/definition with a new name, 1 append a
    /// comment/sentence with another problem, 2 remove the last appended definition, 3 append a
    /// blank line, 4 prepend a line of code / a clean sentence
    pub edits: Vec<u8>,
}

thread_local! {
    static LS: std::cell::RefCell<Option<(crate::lsp::Sandbox, crate::lsp::Server, crate::lsp::Server, u64)>> = const { std::cell::RefCell::new(None) };
}

fn ls_base(lang: u8) -> (&'static str, &'static str, String) {
    match lang % 4 {
        0 => ("rust", "rs", "// This is an test of teh parser.\nfn main() {}\n\n// It could of been worse, realy, I think.\nfn other() {}\n\n// We saw the the parser at work, okay.\nfn third() {}\n\n// We have a lot of work todo here, okay.\nfn fourth() {}\n".to_string()),
        1 => ("python", "py", "# This is an test of teh parser.\ndef main():\n    pass\n\n# It could of been worse, realy, I think.\nx = 1\n\n# We saw the the parser at work, okay.\ny = 2\n\n# We have a lot of work todo here, okay.\nz = 3\n".to_string()),
        // (no lint within two characters of the start or end of its comment / paragraph: the
        // break token between two comments starts right where a comment ends; the last paragraph is clean: edits at the end of the file stay more than two characters
        // away from every lint; `todo` carries two lints with one and the same span)
        2 => ("plaintext", "txt", "Notes follow.\n\nThis is an test of teh parser.\n\nIt could of been worse, realy, I think.\n\nWe saw the the parser at work, okay.\n\nWe have a lot of work todo here, okay.\n\nThe end is near.\n".to_string()),
        _ => ("markdown", "md", "# Notes\n\nThis is an test of teh parser.\n\nIt could of been worse, realy, I think.\n\nWe saw the the parser at work, okay.\n\nWe have a lot of work todo here, okay.\n\nThe end is near.\n".to_string()),
    }
}

fn ls_edit(lang: u8, kind: u8, k: usize, text: &str, defs: &mut Vec<String>) -> String {
    let code = matches!(lang % 4, 0 | 1);
    match kind % 5 {
        0 => {
            let d = match lang % 4 {
                0 => format!("fn helper_{k}() {{}}\n"),
                1 => format!("def helper_{k}():\n    pass\n"),
                _ => format!("Helper number {k} is fine.\n"),
            };
            defs.push(d.clone());
            format!("{text}{d}")
        }
        1 => match lang % 4 {
            0 => format!("{text}// We recieve item {k} here.\n"),
            1 => format!("{text}# We recieve item {k} here.\n"),
            _ => format!("{text}\nWe recieve item {k} here.\n"),
        },
        2 => match defs.pop() {
            Some(d) => text.replacen(&d, "", 1),
            None => text.to_string(),
        },
        3 => format!("{text}\n"),
        _ => {
            if code {
                match lang % 4 {
                    0 => format!("use std::fmt;\n\n{text}"),
                    _ => format!("import os\n\n{text}"),
                }
            } else if lang % 4 == 3 {
                format!("{text}\nAll is well.\n")
            } else {
                format!("All is well.\n\n{text}")
            }
        }
    }
}

/// (message, flagged text, text of the line(s) the lint is on)
fn diag_identity(text: &str, d: &crate::lsp::Diag) -> (String, String, String) {
    use crate::oracle::lsp_pos::{Pos, pos_to_index};
    let cs: Vec<char> = text.chars().collect();
    let a = pos_to_index(&cs, Pos { line: d.start.0, col: d.start.1 });
    let b = pos_to_index(&cs, Pos { line: d.end.0, col: d.end.1 }).max(a);
    let flagged: String = cs[a..b.min(cs.len())].iter().collect();
    let lines: Vec<&str> = text.split('\n').collect();
    let line = lines.get(d.start.0 as usize).copied().unwrap_or("").to_string();
    (d.message.clone(), flagged, line)
}

pub fn test_ls_ignore(c: &LsIgnoreCase, ctx: &mut CaseCtx) -> Result<(), String> {
    use serde_json::json;
    let (lang, ext, base) = ls_base(c.lang);
    let res: Result<Result<(), String>, crate::lsp::LspError> = LS.with(|slot| {
        let mut slot = slot.borrow_mut();
        if slot.is_none() {
            let sb = crate::lsp::Sandbox::new("c14");
            let s = crate::lsp::Server::start(&sb, sb.settings(json!({})), None)?;
            let r = crate::lsp::Server::start(&sb, sb.settings(json!({})), None)?;
            *slot = Some((sb, s, r, 0));
        }
        let out = (|| {
            let (sb, srv, fresh, n) = slot.as_mut().unwrap();
            *n += 1;
            let name = format!("ign{n}.{ext}");
            let uri = sb.uri(&name);
            let ref_uri = sb.uri(&format!("ref{n}.{ext}"));
            std::fs::write(sb.ws_file(&name), &base).map_err(|e| crate::lsp::LspError::Protocol(e.to_string()))?;
            let d0 = srv.open(&uri, lang, &base)?;
            if d0.is_empty() {
                srv.close(&uri)?;
                return Ok(Err("the base document has no diagnostics".to_string()));
            }
            let pick = d0[crate::core::pick_idx(c.sel, d0.len())].clone();
            let ident = diag_identity(&base, &pick);
            // the ignore command an editor would send: taken from the code actions
            let acts = srv.code_actions(&uri, pick.start, pick.end)?;
            let lint = acts.as_array().and_then(|a| {
                a.iter()
                    .filter(|x| x["command"].as_str() == Some("HarperIgnoreLint"))
                    .map(|x| x["arguments"][1].clone())
                    .find(|l| l["message"].as_str() == Some(pick.message.as_str()))
            });
            let Some(lint) = lint else {
                srv.close(&uri)?;
                return Ok(Err(format!("no ignore action offered for diagnostic {:?}", pick.message)));
            };
            let after = srv.execute_and_publish("HarperIgnoreLint", json!([uri, lint]), &uri)?;
            let mut text = base.clone();
            let mut version = 1;
            let mut defs = vec![];
            let mut check = |text: &str, got: &[crate::lsp::Diag], fresh: &mut crate::lsp::Server, what: &str| -> Result<Result<(), String>, crate::lsp::LspError> {
                let all = fresh.open(&ref_uri, lang, text)?;
                fresh.close(&ref_uri)?;
                let render = |text: &str, v: &[crate::lsp::Diag]| {
                    let mut o: Vec<String> = v.iter().map(|d| format!("{:?}-{:?} {}", d.start, d.end, d.message)).collect();
                    o.sort();
                    let _ = text;
                    o
                };
                let want: Vec<crate::lsp::Diag> = all.iter().filter(|d| diag_identity(text, d) != ident).cloned().collect();
                if want.len() == all.len() {
                    return Ok(Err(format!("{what}: a server that ignored nothing no longer reports the lint {:?} on {:?} (the edit touched it?)", ident.0, ident.1)));
                }
                let (g, w) = (render(text, got), render(text, &want));
                if g != w {
                    return Ok(Err(format!(
                        "{what}: the lint {:?} on {:?} (line {:?}) was ignored; the server now publishes {:?}, expected everything a server without ignored lints reports except that lint: {:?}",
                        ident.0, ident.1, ident.2, g, w
                    )));
                }
                Ok(Ok(()))
            };
            if let Err(e) = check(&text, &after, fresh, "right after the ignore command")? {
                srv.close(&uri)?;
                return Ok(Err(e));
            }
            for (k, e) in c.edits.iter().enumerate() {
                let next = ls_edit(c.lang, *e, k, &text, &mut defs);
                if next == text {
                    continue;
                }
                text = next;
                version += 1;
                let got = srv.change(&uri, version, &text)?;
                if let Err(err) = check(&text, &got, fresh, &format!("after edit #{k} (kind {})", e % 5))? {
                    srv.close(&uri)?;
                    return Ok(Err(err));
                }
            }
            srv.close(&uri)?;
            Ok(Ok(()))
        })();
        if out.is_err() {
            *slot = None;
        }
        out
    });
    ctx.class(format!("lang:{}", ls_base(c.lang).0));
    ctx.class_if(c.edits.iter().any(|e| e % 5 == 0) && c.lang % 4 < 2, "identifier_added_after_ignore");
    ctx.class_if(c.edits.iter().any(|e| e % 5 == 4), "text_prepended_after_ignore");
    if !c.edits.is_empty() {
        ctx.nontrivial(c);
    }
    match res {
        Ok(r) => r,
        Err(e) => {
            ctx.infra(e);
            Ok(())
        }
    }
}


// ------------------------------------------------------------------------------------------------
// harper.js: one long-lived Linter, checks in both languages, imported words, then an ignore

#[derive(Debug, Clone, Serialize, Deserialize, PartialEq, Eq, Hash)]
pub struct JsIgnoreCase {
    pub text: String,
    pub markdown: bool,
    pub sel: u16,
    /// what the page does between showing the lint and the user ignoring it:
    /// 0 check the same text in the other language, 1 check another text, 2 import a word that
    /// stands next to a problem (or occurs nowhere), 3 read the configuration, 4 export the words
    pub between: Vec<u8>,
}

const JS_NONWORDS: &[&str] = &["grault", "zorvath", "quexlin"];

fn js_lint_key(l: &harper_wasm::Lint) -> String {
    serde_json::to_string(l).unwrap_or_default()
}

pub fn test_js_ignore(c: &JsIgnoreCase, ctx: &mut CaseCtx) -> Result<(), String> {
    use harper_wasm::{Language, Linter};
    let (lang, other) = if c.markdown { (Language::Markdown, Language::Plain) } else { (Language::Plain, Language::Markdown) };
    let r = crate::core::catch(|| -> Result<(), String> {
        let mut linter = Linter::new(harper_wasm::Dialect::American);
        let shown = linter.lint(c.text.clone(), lang);
        if shown.is_empty() {
            ctx.class("no_lints");
            return Ok(());
        }
        let k = (c.sel as usize * shown.len()) >> 16;
        let target_key = js_lint_key(&shown[k]);
        let mut imported: Vec<String> = vec![];
        for (i, step) in c.between.iter().enumerate() {
            match step % 5 {
                0 => {
                    let _ = linter.lint(c.text.clone(), other);
                    ctx.class("same_text_checked_in_the_other_language_before_the_ignore");
                }
                1 => {
                    let _ = linter.lint("Another teh text with `code` and *stars* here.".to_string(), lang);
                }
                2 => {
                    let w = JS_NONWORDS.iter().find(|w| c.text.contains(**w) && !imported.iter().any(|x| x == **w)).map(|w| w.to_string()).unwrap_or(format!("zqpageword{i}"));
                    linter.import_words(vec![w.clone()]);
                    imported.push(w);
                    ctx.class("words_imported_before_the_ignore");
                }
                3 => {
                    let _ = linter.get_lint_config_as_json();
                }
                _ => {
                    let _ = linter.export_words();
                }
            }
        }
        // what a Linter that never did anything else reports for this text under the same words
        let mut fresh = Linter::new(harper_wasm::Dialect::American);
        if !imported.is_empty() {
            fresh.import_words(imported.clone());
        }
        let reference = fresh.lint(c.text.clone(), lang);
        let ref_keys: Vec<String> = reference.iter().map(js_lint_key).collect();
        if !ref_keys.contains(&target_key) {
            // the import changed or removed the lint that was shown: nothing to ignore any more
            ctx.class("shown_lint_changed_by_the_import");
            return Ok(());
        }
        let target: harper_wasm::Lint = serde_json::from_str(&target_key).map_err(|e| e.to_string())?;
        let (t_msg, t_text) = (target.message(), target.get_problem_text());
        linter.ignore_lint(c.text.clone(), target);
        let after = linter.lint(c.text.clone(), lang);
        let after_keys: Vec<String> = after.iter().map(js_lint_key).collect();
        ctx.nontrivial(c);
        if after_keys.contains(&target_key) {
            return Err(format!(
                "harper.js Linter: {:?} checked as {lang:?}, steps {:?} (0 same text in the other language, 1 another text, 2 import {:?}, 3 read config, 4 export words), then ignore_lint of {t_text:?} ({t_msg}): the next check still reports it",
                c.text, c.between, imported
            ));
        }
        for (l, key) in reference.iter().zip(&ref_keys) {
            if (l.message() != t_msg || l.get_problem_text() != t_text) && !after_keys.contains(key) {
                return Err(format!(
                    "harper.js Linter: after ignoring {t_text:?} ({t_msg}) in {:?} the lint {:?} ({}) is hidden as well",
                    c.text, l.get_problem_text(), l.message()
                ));
            }
        }
        for key in &after_keys {
            if !ref_keys.contains(key) {
                return Err(format!("harper.js Linter: after an ignore, {:?} gets a lint a fresh Linter does not report: {key}", c.text));
            }
        }
        Ok(())
    });
    match r {
        Ok(v) => v,
        Err(_) => {
            ctx.class("skipped_c01_panic");
            Ok(())
        }
    }
}

fn js_ignore_strategy() -> BoxedStrategy<JsIgnoreCase> {
    // problems with markup or an unknown word right next to them: there the two languages, and the
    // dictionaries before and after an import, lex different neighbours
    let marked = (g::sel_str(ERRORS), g::sel_str(&["*{e}*", "**{e}**", "`this` {e}", "{e} `that`", "_{e}_", "[{e}](u)", "{n} {e}", "{e} {n}", "*{n}* {e}", "{e}"]), g::sel_str(JS_NONWORDS), g::plain_word())
        .prop_map(|(e, shape, n, w)| format!("Look at the {w} {}, please.", shape.replace("{e}", &e).replace("{n}", &n)));
    let text = prop_oneof![
        5 => proptest::collection::vec(marked, 1..3).prop_map(|v| v.join(" ")),
        2 => repeated_problem_text(),
        1 => g::text().prop_map(|t| t.trim().to_string()),
    ];
    (text, any::<bool>(), any::<u16>(), proptest::collection::vec(prop_oneof![3 => Just(0u8), 2 => Just(2u8), 2 => 0u8..5], 0..4))
        .prop_map(|(text, markdown, sel, between)| JsIgnoreCase { text, markdown, sel, between })
        .boxed()
}

pub fn run(run: &mut Run) {
    {
        let shrink = run.max_shrink_iters;
        let threads = run.threads;
        run.max_shrink_iters = 60;
        run.threads = run.threads.min(8);
        let n = run.n(120, 3_000);
        run.prop(
            "language_server_ignore",
            n,
            || {
                (0u8..4, any::<u16>(), proptest::collection::vec(0u8..5, 1..6))
                    .prop_map(|(lang, sel, edits)| LsIgnoreCase { lang, sel, edits })
                    .boxed()
            },
            test_ls_ignore,
        );
        run.require_class("language_server_ignore", "identifier_added_after_ignore", (n / 15) as u64);
        run.require_class("language_server_ignore", "text_prepended_after_ignore", (n / 10) as u64);
        run.max_shrink_iters = shrink;
        run.threads = threads;
    }
    let n = run.n(1_500, 40_000);
    run.prop("js_api_ignore", n, js_ignore_strategy, test_js_ignore);
    run.require_class("js_api_ignore", "same_text_checked_in_the_other_language_before_the_ignore", (n / 5) as u64);
    run.require_class("js_api_ignore", "words_imported_before_the_ignore", (n / 5) as u64);
    let n = run.n(3_000, 150_000);
    run.prop("ignore_across_texts", n, across_strategy, test_across);
    run.require_class("ignore_across_texts", "same_lint_other_neighbour", (n / 10) as u64);
    run.require_class("ignore_across_texts", "same_lint_other_neighbour_at_document_start", (n / 20) as u64);
    run.rule = "documents biased to repeated problems (the same error 2-3 times with equal or different neighbours, optionally next to quotes/brackets) plus G-TEXT documents, plain and Markdown, curated rules; a random subset of the lints is ignored; then (b) the ignore list goes through JSON and (c) a paragraph is prepended and/or appended (with/without quotes). Oracle uses an independent identity: equal kind/message/suggestions/priority and equal texts of the tokens intersecting the span, the 2 chars before and the 2 chars after. language_server_ignore: the real harper-ls on Rust, Python, plain-text and Markdown files: one published diagnostic is ignored through the command its code action carries, then 1-5 edits elsewhere in the file (new definitions = new identifiers, further comments with other problems, removals, blank lines, a prepended line); after every step the publication must be what a second server that ignored nothing publishes for the same text, minus exactly that lint. js_api_ignore: one harper.js Linter shows the lints of a text (problems next to Markdown markup or next to an unknown word), then checks the same text in the other language, checks another text, imports words or reads its state, and only then the user ignores one of the shown lints: the next check must not report it, must hide nothing with another message or text, and must invent nothing (reference: a fresh Linter with the same words). ignore_across_texts: the same problem embedded in two texts that differ right next to it (0-3 characters between the document start and the lint, other punctuation after it, plain vs Markdown); every lint of the first text is ignored, and in the second text only lints with the same identity may be hidden. Non-trivial = something ignored and (two lints with equal fields but different neighbourhoods, or a quote in a neighbourhood, or text prepended).".into();
    let n = run.n(3_000, 150_000);
    run.prop("ignore_and_edit", n, ignore_strategy, test_ignore);
    run.require_class("ignore_and_edit", "equal_fields_different_neighbourhood", (n / 10) as u64);
    run.require_class("ignore_and_edit", "quote_in_neighbourhood", (n / 20) as u64);
    run.require_class("ignore_and_edit", "edit_checked_lint", (n / 4) as u64);
}

pub fn replay(check: &str, case: Value, _run: &mut Run) -> Result<(), String> {
    if check == "language_server_ignore" {
        let c: LsIgnoreCase = serde_json::from_value(case).map_err(|e| e.to_string())?;
        return test_ls_ignore(&c, &mut CaseCtx::default());
    }
    if check == "js_api_ignore" {
        let c: JsIgnoreCase = serde_json::from_value(case).map_err(|e| e.to_string())?;
        return test_js_ignore(&c, &mut CaseCtx::default());
    }
    if check == "ignore_across_texts" {
        let c: AcrossCase = serde_json::from_value(case).map_err(|e| e.to_string())?;
        return test_across(&c, &mut CaseCtx::default());
    }
    let c: IgnoreCase = serde_json::from_value(case).map_err(|e| e.to_string())?;
    let mut ctx = CaseCtx::default();
    test_ignore(&c, &mut ctx)
}
