//! C13 — overlap resolution returns a conflict-free subset of the lints.

use harper_core::linting::{Lint, LintGroup, LintKind, Linter, Suggestion};
use harper_core::parsers::{Markdown, MarkdownOptions, PlainEnglish};
use harper_core::{Dialect, Document, FstDictionary, Span, remove_overlaps};
use proptest::prelude::*;
use serde_json::Value;

use crate::core::{CaseCtx, Run};
use crate::generators as g;
use crate::oracle;

type Spans = Vec<(usize, usize)>;

fn mk_lints(spans: &Spans) -> Vec<Lint> {
    spans
        .iter()
        .enumerate()
        .map(|(i, &(s, e))| Lint {
            span: Span { start: s, end: e },
            lint_kind: LintKind::Miscellaneous,
            suggestions: vec![Suggestion::ReplaceWith(vec![char::from(b'a' + (i % 26) as u8)])],
            message: format!("L{i}"),
            priority: (i % 256) as u8,
        })
        .collect()
}

fn overlap(a: &Span, b: &Span) -> bool {
    a.start < b.end && b.start < a.end
}

/// The validity predicate of the statement, both directions.
pub fn check_resolution(input: &[Lint], output: &[Lint]) -> Result<(), String> {
    // sub-multiset, unaltered
    let mut used = vec![false; input.len()];
    for o in output {
        match (0..input.len()).find(|&i| !used[i] && &input[i] == o) {
            Some(i) => used[i] = true,
            None => {
                return Err(format!(
                    "output lint {:?} {}..{} is not an (unused) input lint: invented or altered",
                    o.message, o.span.start, o.span.end
                ));
            }
        }
    }
    // conflict free
    for (i, a) in output.iter().enumerate() {
        for b in &output[i + 1..] {
            if overlap(&a.span, &b.span) {
                return Err(format!(
                    "kept lints overlap: {}..{} and {}..{}",
                    a.span.start, a.span.end, b.span.start, b.span.end
                ));
            }
        }
    }
    // every dropped lint starts inside (or at the start of) a kept lint
    for (i, d) in input.iter().enumerate() {
        if used[i] {
            continue;
        }
        if !output
            .iter()
            .any(|k| k.span.start <= d.span.start && d.span.start < k.span.end)
        {
            return Err(format!(
                "dropped lint {}..{} does not start inside any kept lint (kept: {:?})",
                d.span.start,
                d.span.end,
                output
                    .iter()
                    .map(|k| (k.span.start, k.span.end))
                    .collect::<Vec<_>>()
            ));
        }
    }
    Ok(())
}

pub fn test_spans_pub(spans: &Spans, ctx: &mut CaseCtx) -> Result<(), String> {
    test_spans(spans, ctx)
}

fn test_spans(spans: &Spans, ctx: &mut CaseCtx) -> Result<(), String> {
    let input = mk_lints(spans);
    let mut out = input.clone();
    remove_overlaps(&mut out);
    let has_overlap = (0..input.len())
        .any(|i| (i + 1..input.len()).any(|j| overlap(&input[i].span, &input[j].span)));
    ctx.class_if(has_overlap, "has_overlap");
    ctx.class_if(spans.iter().any(|s| s.0 == s.1), "has_zero_width");
    ctx.class_if(out.len() < input.len(), "dropped_some");
    let touching = (0..input.len()).any(|i| {
        (0..input.len()).any(|j| i != j && input[i].span.end == input[j].span.start && input[i].span.start != input[i].span.end)
    });
    ctx.class_if(touching, "has_touching");
    if has_overlap {
        let mut key = spans.clone();
        key.sort();
        ctx.nontrivial(&key);
    }
    check_resolution(&input, &out)
}

#[derive(Debug, Clone, serde::Serialize, serde::Deserialize)]
pub struct DocCase {
    pub text: String,
    pub markdown: bool,
}

/// reference: apply the first suggestion of every lint, in original coordinates
fn ref_apply_all(text: &[char], lints: &[Lint]) -> Vec<char> {
    let mut ls: Vec<&Lint> = lints.iter().filter(|l| !l.suggestions.is_empty()).collect();
    ls.sort_by_key(|l| (l.span.start, l.span.end));
    let mut out = vec![];
    let mut cursor = 0;
    for l in ls {
        out.extend_from_slice(&text[cursor..l.span.start]);
        match &l.suggestions[0] {
            Suggestion::ReplaceWith(r) => out.extend_from_slice(r),
            Suggestion::InsertAfter(r) => {
                out.extend_from_slice(&text[l.span.start..l.span.end]);
                out.extend_from_slice(r);
            }
            Suggestion::Remove => {}
        }
        cursor = l.span.end;
    }
    out.extend_from_slice(&text[cursor..]);
    out
}

fn test_doc(case: &DocCase, ctx: &mut CaseCtx) -> Result<(), String> {
    let dict = FstDictionary::curated();
    let doc = if case.markdown {
        Document::new(&case.text, &Markdown::new(MarkdownOptions::default()), &dict)
    } else {
        Document::new(&case.text, &PlainEnglish, &dict)
    };
    let mut group = LintGroup::new_curated(dict.clone(), Dialect::American);
    group.config = g::ConfigSpec::all_on().build();
    let input = group.lint(&doc);
    let mut out = input.clone();
    remove_overlaps(&mut out);
    let has_overlap = (0..input.len())
        .any(|i| (i + 1..input.len()).any(|j| overlap(&input[i].span, &input[j].span)));
    ctx.class_if(has_overlap, "has_overlap");
    ctx.class_if(!input.is_empty(), "has_lints");
    if has_overlap {
        ctx.nontrivial(&case.text);
    }
    check_resolution(&input, &out)?;
    let n_chars = case.text.chars().count();
    if input.iter().any(|l| l.span.start > l.span.end || l.span.end > n_chars) {
        // an out-of-bounds lint span is C03's violation, not C13's
        ctx.class("skipped_c03_out_of_bounds");
        return Ok(());
    }
    // one pass, back to front
    let text: Vec<char> = case.text.chars().collect();
    let expected = ref_apply_all(&text, &out);
    let mut ordered: Vec<&Lint> = out.iter().filter(|l| !l.suggestions.is_empty()).collect();
    ordered.sort_by_key(|l| std::cmp::Reverse((l.span.start, l.span.end)));
    let mut got = text.clone();
    for l in ordered {
        l.suggestions[0].apply(l.span, &mut got);
    }
    if got != expected {
        return Err(format!(
            "back-to-front application of the kept lints interferes: got {:?}, reference {:?}",
            oracle::string(&got),
            oracle::string(&expected)
        ));
    }
    Ok(())
}

// ------------------------------------------------------------------------------------------------
// what the command-line tool reports

#[derive(Debug, Clone, serde::Serialize, serde::Deserialize, PartialEq, Eq, Hash)]
pub struct CliCase {
    pub text: String,
    /// `--only-lint-with` arguments (empty = every rule)
    pub rules: Vec<String>,
}

fn cli_bin() -> String {
    std::env::var("HV_CLI_BIN").unwrap_or_else(|_| "/verif/target/ls/release/harper-cli".into())
}

fn strip_ansi(s: &str) -> String {
    let mut out = String::new();
    let mut it = s.chars().peekable();
    while let Some(c) = it.next() {
        if c == '\u{1b}' && it.peek() == Some(&'[') {
            for d in it.by_ref() {
                if d.is_ascii_alphabetic() {
                    break;
                }
            }
        } else {
            out.push(c);
        }
    }
    out
}

/// `harper-cli lint file.md [--only-lint-with R]…` prints one label per reported lint, each
/// carrying the lint's message. The multiset of printed messages must be that of a conflict-free
/// sub-list of the lints these rules produce.
pub fn test_cli(c: &CliCase, ctx: &mut CaseCtx) -> Result<(), String> {
    use harper_core::MergedDictionary;
    use std::sync::Arc;
    // in-process: the lints of exactly these rules
    let mut merged = MergedDictionary::new();
    merged.add_dictionary(FstDictionary::curated());
    let merged = Arc::new(merged);
    let doc = Document::new(&c.text, &Markdown::default(), &merged);
    let mut group = LintGroup::new_curated(merged.clone(), Dialect::American);
    if !c.rules.is_empty() {
        group.set_all_rules_to(Some(false));
        for r in &c.rules {
            group.config.set_rule_enabled(r, true);
        }
    }
    let Ok(raw) = crate::core::catch(|| group.lint(&doc)) else {
        ctx.class("skipped_c01_panic");
        return Ok(());
    };
    let n_chars = c.text.chars().count();
    if raw.iter().any(|l| l.span.start > l.span.end || l.span.end > n_chars) {
        ctx.class("skipped_c03_out_of_bounds");
        return Ok(());
    }
    let mut kept = raw.clone();
    remove_overlaps(&mut kept);
    check_resolution(&raw, &kept)?;
    let mut distinct: Vec<&str> = raw.iter().map(|l| l.message.as_str()).collect();
    distinct.sort();
    distinct.dedup();
    // counting messages in the printed report needs them to be unambiguous
    let ambiguous = distinct.iter().any(|m| m.is_empty() || c.text.contains(m) || distinct.iter().any(|o| o != m && o.contains(m)));
    if ambiguous {
        ctx.class("skipped_ambiguous_messages");
        return Ok(());
    }
    let has_overlap = (0..raw.len()).any(|i| (i + 1..raw.len()).any(|j| overlap(&raw[i].span, &raw[j].span)));
    ctx.class_if(has_overlap, "has_overlap");
    ctx.class_if(has_overlap && c.rules.len() == 1, "one_rule_overlapping_itself");
    ctx.class_if(c.rules.is_empty(), "all_rules");
    if has_overlap {
        ctx.nontrivial(c);
    }

    static N: std::sync::atomic::AtomicU64 = std::sync::atomic::AtomicU64::new(0);
    let dir = std::path::Path::new(crate::core::VERIF_DIR).join("work").join(format!(
        "sb-c13cli-{}-{}",
        std::process::id(),
        N.fetch_add(1, std::sync::atomic::Ordering::Relaxed)
    ));
    let _ = std::fs::create_dir_all(&dir);
    let file = dir.join("input.md");
    let run = (|| -> std::io::Result<std::process::Output> {
        std::fs::write(&file, &c.text)?;
        let mut cmd = std::process::Command::new(cli_bin());
        cmd.arg("lint").arg(&file);
        for r in &c.rules {
            cmd.arg("--only-lint-with").arg(r);
        }
        cmd.arg("--user-dict-path").arg(dir.join("no-user-dict.txt"));
        cmd.arg("--file-dict-path").arg(dir.join("no-file-dicts"));
        cmd.env("HOME", &dir).env("XDG_CONFIG_HOME", dir.join("config")).env("XDG_DATA_HOME", dir.join("data"));
        cmd.stdin(std::process::Stdio::null());
        cmd.output()
    })();
    let _ = std::fs::remove_dir_all(&dir);
    let out = match run {
        Ok(o) => o,
        Err(e) => {
            ctx.infra(format!("cannot run {}: {e}", cli_bin()));
            return Ok(());
        }
    };
    let printed = strip_ansi(&format!("{}{}", String::from_utf8_lossy(&out.stdout), String::from_utf8_lossy(&out.stderr)));
    if out.status.code().is_none() || printed.contains("panicked at") {
        return Err(format!("harper-cli lint died on {:?} with rules {:?}: {}", c.text, c.rules, printed.lines().rev().take(4).collect::<Vec<_>>().join(" / ")));
    }
    for m in &distinct {
        let got = printed.matches(m).count();
        let want = kept.iter().filter(|l| l.message == *m).count();
        if got != want {
            return Err(format!(
                "harper-cli lint with rules {:?} reports {got} lint(s) saying {m:?} for {:?}; of the {} such lints these rules produce only {want} belong to the conflict-free selection (the reported lints cannot all be fixed in one pass)",
                c.rules, c.text, raw.iter().filter(|l| l.message == *m).count()
            ));
        }
    }
    Ok(())
}

/// The JavaScript-facing linter asked again about the same text (every keystroke pause in an
/// editor does that): every answer is conflict-free and equals the first.
pub fn test_js_relint(c: &CliCase, ctx: &mut CaseCtx) -> Result<(), String> {
    let mut linter = harper_wasm::Linter::new(harper_wasm::Dialect::American);
    let lang = if c.rules.len() % 2 == 0 { harper_wasm::Language::Plain } else { harper_wasm::Language::Markdown };
    let mut first: Option<Vec<(usize, usize, String)>> = None;
    for round in 0..3 {
        let Ok(got) = crate::core::catch(std::panic::AssertUnwindSafe(|| linter.lint(c.text.clone(), lang))) else {
            ctx.class("skipped_c01_panic");
            return Ok(());
        };
        let v: Vec<(usize, usize, String)> = got.iter().map(|l| (l.span().start, l.span().end, l.message())).collect();
        for (i, a) in v.iter().enumerate() {
            for b in &v[i + 1..] {
                if a.0 < b.1 && b.0 < a.1 {
                    return Err(format!(
                        "call {} of Linter::lint on the same text {:?} returns overlapping lints {}..{} {:?} and {}..{} {:?}",
                        round + 1, c.text, a.0, a.1, a.2, b.0, b.1, b.2
                    ));
                }
            }
        }
        match &first {
            None => first = Some(v),
            Some(f) => {
                if *f != v {
                    return Err(format!("call {} of Linter::lint on the same text {:?} returns {} lints, the first call {}", round + 1, c.text, v.len(), f.len()));
                }
            }
        }
    }
    // would overlap removal have had something to do?
    let dict = FstDictionary::curated();
    let doc = if matches!(lang, harper_wasm::Language::Plain) { Document::new(&c.text, &PlainEnglish, &dict) } else { Document::new(&c.text, &Markdown::default(), &dict) };
    let raw = crate::core::catch(|| LintGroup::new_curated(dict.clone(), Dialect::American).lint(&doc)).unwrap_or_default();
    let has_overlap = (0..raw.len()).any(|i| (i + 1..raw.len()).any(|j| overlap(&raw[i].span, &raw[j].span)));
    ctx.class_if(has_overlap, "has_overlap");
    if has_overlap {
        ctx.nontrivial(c);
    }
    Ok(())
}

fn cli_strategy() -> BoxedStrategy<CliCase> {
    const PIECES: &[&str] = &[
        "I saw the the the cat on the mat.", "It is is is fine to to to to go there.",
        "\"hello\" “ hello ” ' x '  (  y  )", "This is an  an apple.", "We could of of done it.",
        "Teh teh teh end.", "A  b   c.", "there fore there fore we go.", "An an an example.",
    ];
    const RULES: &[&str] = &["RepeatedWords", "Spaces", "SpellCheck", "AnA", "SentenceCapitalization", "LongSentences", "ModalOf"];
    let text = prop_oneof![
        3 => proptest::collection::vec(g::sel_str(PIECES), 1..4).prop_map(|v| v.join(" ")),
        2 => (g::sel_str(PIECES), g::long_sentence(), g::sel_str(PIECES)).prop_map(|(a, b, c)| format!("{a} {b} {c}")),
        2 => g::text(),
    ];
    let rules = prop_oneof![
        2 => Just(vec![]),
        3 => g::sel_str(&["RepeatedWords", "Spaces"]).prop_map(|r| vec![r]),
        3 => g::sel_str(RULES).prop_map(|r| vec![r]),
        2 => (g::sel_str(RULES), g::sel_str(RULES)).prop_map(|(a, b)| if a == b { vec![a] } else { vec![a, b] }),
        1 => g::rule_key().prop_map(|r| vec![r]),
    ];
    (text, rules).prop_map(|(text, rules)| CliCase { text, rules }).boxed()
}

fn spans_strategy(max_coord: usize, max_len: usize) -> BoxedStrategy<Spans> {
    let span = (0..=max_coord, 0..=max_coord).prop_map(|(a, b)| (a.min(b), a.max(b)));
    proptest::collection::vec(span, 0..=max_len).boxed()
}

pub fn run(run: &mut Run) {
    run.rule = "span lists: all ordered lists of <=4 spans over coordinates 0..=5 (exhaustive) and random lists of <=12 spans over 0..=12 / <=40 spans over 0..=60; real lint lists of generated plain/Markdown documents with all rules on; js_api_repeated_lint: harper_wasm::Linter::lint called three times on the same text — every answer conflict-free and equal to the first; command_line_reports: the real harper-cli binary run on generated Markdown files (repeated words, runs of spaces, long sentences, G-TEXT) with no, one or two --only-lint-with rules — the multiset of messages in its report must equal that of a conflict-free sub-list (validated by the same predicate) of the lints these rules produce in-process. Non-trivial = input contains an overlapping pair; distinct by sorted span list / by text.".into();
    // E2: exhaustive small scope
    let mut spans = vec![];
    for s in 0..=5usize {
        for e in s..=5usize {
            spans.push((s, e));
        }
    }
    let mut all: Vec<Spans> = vec![vec![]];
    let mut frontier: Vec<Spans> = vec![vec![]];
    let depth = run.tier.pick(3, 4);
    for _ in 0..depth {
        let mut next = vec![];
        for f in &frontier {
            for s in &spans {
                let mut n = f.clone();
                n.push(*s);
                next.push(n);
            }
        }
        all.extend(next.iter().cloned());
        frontier = next;
    }
    run.enumerate("small_scope_all_span_lists", &all, true, test_spans);
    drop(all);

    let n = run.n(100_000, 5_000_000);
    run.prop("random_span_lists", n, || spans_strategy(12, 12), test_spans);
    let n = run.n(20_000, 500_000);
    run.prop("random_span_lists_large", n, || spans_strategy(60, 40), test_spans);
    run.require_class("random_span_lists", "has_overlap", (n / 10) as u64);
    run.require_class("random_span_lists", "has_zero_width", 100);

    let n = run.n(3_000, 150_000);
    run.prop(
        "document_lint_lists",
        n,
        || {
            (g::text(), any::<bool>())
                .prop_map(|(text, markdown)| DocCase { text, markdown })
                .boxed()
        },
        test_doc,
    );
    run.require_class("document_lint_lists", "has_overlap", 20);

    let n = run.n(400, 10_000);
    let shrink = run.max_shrink_iters;
    run.max_shrink_iters = 120;
    run.prop("command_line_reports", n, cli_strategy, test_cli);
    run.max_shrink_iters = shrink;
    run.require_class("command_line_reports", "has_overlap", (n / 8) as u64);
    let n2 = run.n(1_000, 30_000);
    run.prop("js_api_repeated_lint", n2, cli_strategy, test_js_relint);
    run.require_class("js_api_repeated_lint", "has_overlap", (n2 / 8) as u64);
    run.require_class("command_line_reports", "one_rule_overlapping_itself", (n / 40) as u64);
}

pub fn replay(check: &str, case: Value, _run: &mut Run) -> Result<(), String> {
    let mut ctx = CaseCtx::default();
    match check {
        "js_api_repeated_lint" => {
            let c: CliCase = serde_json::from_value(case).map_err(|e| e.to_string())?;
            test_js_relint(&c, &mut ctx)
        }
        "command_line_reports" => {
            let c: CliCase = serde_json::from_value(case).map_err(|e| e.to_string())?;
            test_cli(&c, &mut ctx)
        }
        "document_lint_lists" => {
            let c: DocCase = serde_json::from_value(case).map_err(|e| e.to_string())?;
            test_doc(&c, &mut ctx)
        }
        _ => {
            let c: Spans = serde_json::from_value(case).map_err(|e| e.to_string())?;
            test_spans(&c, &mut ctx)
        }
    }
}
