//! C13 — overlap resolution returns a conflict-free subset of the lints.

use harper_core::linting::{Lint, LintGroup, LintKind, Linter, Suggestion};
use harper_core::parsers::{Markdown, MarkdownOptions, PlainEnglish};
use harper_core::{Dialect, Document, FstDictionary, Span, remove_overlaps};
use proptest::prelude::*;
use serde_json::Value;

use crate::core::{CaseCtx, Run};
use crate::generators as g;
use crate::oracle;

type Spans = Vec<(usize, usize)>;

fn mk_lints(spans: &Spans) -> Vec<Lint> {
    spans
        .iter()
        .enumerate()
        .map(|(i, &(s, e))| Lint {
            span: Span { start: s, end: e },
            lint_kind: LintKind::Miscellaneous,
            suggestions: vec![Suggestion::ReplaceWith(vec![char::from(b'a' + (i % 26) as u8)])],
            message: format!("L{i}"),
            priority: (i % 256) as u8,
        })
        .collect()
}

fn overlap(a: &Span, b: &Span) -> bool {
    a.start < b.end && b.start < a.end
}

/// The validity predicate of the statement, both directions.
pub fn check_resolution(input: &[Lint], output: &[Lint]) -> Result<(), String> {
    // sub-multiset, unaltered
    let mut used = vec![false; input.len()];
    for o in output {
        match (0..input.len()).find(|&i| !used[i] && &input[i] == o) {
            Some(i) => used[i] = true,
            None => {
                return Err(format!(
                    "output lint {:?} {}..{} is not an (unused) input lint: invented or altered",
                    o.message, o.span.start, o.span.end
                ));
            }
        }
    }
    // conflict free
    for (i, a) in output.iter().enumerate() {
        for b in &output[i + 1..] {
            if overlap(&a.span, &b.span) {
                return Err(format!(
                    "kept lints overlap: {}..{} and {}..{}",
                    a.span.start, a.span.end, b.span.start, b.span.end
                ));
            }
        }
    }
    // every dropped lint starts inside (or at the start of) a kept lint
    for (i, d) in input.iter().enumerate() {
        if used[i] {
            continue;
        }
        if !output
            .iter()
            .any(|k| k.span.start <= d.span.start && d.span.start < k.span.end)
        {
            return Err(format!(
                "dropped lint {}..{} does not start inside any kept lint (kept: {:?})",
                d.span.start,
                d.span.end,
                output
                    .iter()
                    .map(|k| (k.span.start, k.span.end))
                    .collect::<Vec<_>>()
            ));
        }
    }
    Ok(())
}

pub fn test_spans_pub(spans: &Spans, ctx: &mut CaseCtx) -> Result<(), String> {
    test_spans(spans, ctx)
}

fn test_spans(spans: &Spans, ctx: &mut CaseCtx) -> Result<(), String> {
    let input = mk_lints(spans);
    let mut out = input.clone();
    remove_overlaps(&mut out);
    let has_overlap = (0..input.len())
        .any(|i| (i + 1..input.len()).any(|j| overlap(&input[i].span, &input[j].span)));
    ctx.class_if(has_overlap, "has_overlap");
    ctx.class_if(spans.iter().any(|s| s.0 == s.1), "has_zero_width");
    ctx.class_if(out.len() < input.len(), "dropped_some");
    let touching = (0..input.len()).any(|i| {
        (0..input.len()).any(|j| i != j && input[i].span.end == input[j].span.start && input[i].span.start != input[i].span.end)
    });
    ctx.class_if(touching, "has_touching");
    if has_overlap {
        let mut key = spans.clone();
        key.sort();
        ctx.nontrivial(&key);
    }
    check_resolution(&input, &out)
}

#[derive(Debug, Clone, serde::Serialize, serde::Deserialize)]
pub struct DocCase {
    pub text: String,
    pub markdown: bool,
}

/// reference: apply the first suggestion of every lint, in original coordinates
fn ref_apply_all(text: &[char], lints: &[Lint]) -> Vec<char> {
    let mut ls: Vec<&Lint> = lints.iter().filter(|l| !l.suggestions.is_empty()).collect();
    ls.sort_by_key(|l| (l.span.start, l.span.end));
    let mut out = vec![];
    let mut cursor = 0;
    for l in ls {
        out.extend_from_slice(&text[cursor..l.span.start]);
        match &l.suggestions[0] {
            Suggestion::ReplaceWith(r) => out.extend_from_slice(r),
            Suggestion::InsertAfter(r) => {
                out.extend_from_slice(&text[l.span.start..l.span.end]);
                out.extend_from_slice(r);
            }
            Suggestion::Remove => {}
        }
        cursor = l.span.end;
    }
    out.extend_from_slice(&text[cursor..]);
    out
}

fn test_doc(case: &DocCase, ctx: &mut CaseCtx) -> Result<(), String> {
    let dict = FstDictionary::curated();
    let doc = if case.markdown {
        Document::new(&case.text, &Markdown::new(MarkdownOptions::default()), &dict)
    } else {
        Document::new(&case.text, &PlainEnglish, &dict)
    };
    let mut group = LintGroup::new_curated(dict.clone(), Dialect::American);
    group.config = g::ConfigSpec::all_on().build();
    let input = group.lint(&doc);
    let mut out = input.clone();
    remove_overlaps(&mut out);
    let has_overlap = (0..input.len())
        .any(|i| (i + 1..input.len()).any(|j| overlap(&input[i].span, &input[j].span)));
    ctx.class_if(has_overlap, "has_overlap");
    ctx.class_if(!input.is_empty(), "has_lints");
    if has_overlap {
        ctx.nontrivial(&case.text);
    }
    check_resolution(&input, &out)?;
    let n_chars = case.text.chars().count();
    if input.iter().any(|l| l.span.start > l.span.end || l.span.end > n_chars) {
        // an out-of-bounds lint span is C03's violation, not C13's
        ctx.class("skipped_c03_out_of_bounds");
        return Ok(());
    }
    // one pass, back to front
    let text: Vec<char> = case.text.chars().collect();
    let expected = ref_apply_all(&text, &out);
    let mut ordered: Vec<&Lint> = out.iter().filter(|l| !l.suggestions.is_empty()).collect();
    ordered.sort_by_key(|l| std::cmp::Reverse((l.span.start, l.span.end)));
    let mut got = text.clone();
    for l in ordered {
        l.suggestions[0].apply(l.span, &mut got);
    }
    if got != expected {
        return Err(format!(
            "back-to-front application of the kept lints interferes: got {:?}, reference {:?}",
            oracle::string(&got),
            oracle::string(&expected)
        ));
    }
    Ok(())
}

fn spans_strategy(max_coord: usize, max_len: usize) -> BoxedStrategy<Spans> {
    let span = (0..=max_coord, 0..=max_coord).prop_map(|(a, b)| (a.min(b), a.max(b)));
    proptest::collection::vec(span, 0..=max_len).boxed()
}

pub fn run(run: &mut Run) {
    run.rule = "span lists: all ordered lists of <=4 spans over coordinates 0..=5 (exhaustive) and random lists of <=12 spans over 0..=12 / <=40 spans over 0..=60; real lint lists of generated plain/Markdown documents with all rules on. Non-trivial = input contains an overlapping pair; distinct by sorted span list / by text.".into();
    // E2: exhaustive small scope
    let mut spans = vec![];
    for s in 0..=5usize {
        for e in s..=5usize {
            spans.push((s, e));
        }
    }
    let mut all: Vec<Spans> = vec![vec![]];
    let mut frontier: Vec<Spans> = vec![vec![]];
    let depth = run.tier.pick(3, 4);
    for _ in 0..depth {
        let mut next = vec![];
        for f in &frontier {
            for s in &spans {
                let mut n = f.clone();
                n.push(*s);
                next.push(n);
            }
        }
        all.extend(next.iter().cloned());
        frontier = next;
    }
    run.enumerate("small_scope_all_span_lists", &all, true, test_spans);
    drop(all);

    let n = run.n(100_000, 5_000_000);
    run.prop("random_span_lists", n, || spans_strategy(12, 12), test_spans);
    let n = run.n(20_000, 500_000);
    run.prop("random_span_lists_large", n, || spans_strategy(60, 40), test_spans);
    run.require_class("random_span_lists", "has_overlap", (n / 10) as u64);
    run.require_class("random_span_lists", "has_zero_width", 100);

    let n = run.n(3_000, 150_000);
    run.prop(
        "document_lint_lists",
        n,
        || {
            (g::text(), any::<bool>())
                .prop_map(|(text, markdown)| DocCase { text, markdown })
                .boxed()
        },
        test_doc,
    );
    run.require_class("document_lint_lists", "has_overlap", 20);
}

pub fn replay(check: &str, case: Value, _run: &mut Run) -> Result<(), String> {
    let mut ctx = CaseCtx::default();
    match check {
        "document_lint_lists" => {
            let c: DocCase = serde_json::from_value(case).map_err(|e| e.to_string())?;
            test_doc(&c, &mut ctx)
        }
        _ => {
            let c: Spans = serde_json::from_value(case).map_err(|e| e.to_string())?;
            test_spans(&c, &mut ctx)
        }
    }
}
