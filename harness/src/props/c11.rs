//! C11 — rule switches do exactly what they say.

use std::cell::RefCell;
use std::collections::BTreeMap;

use harper_core::linting::{Lint, LintGroup, LintGroupConfig, Linter};
use harper_core::parsers::PlainEnglish;
use harper_core::{Dialect, Document, FstDictionary};
use proptest::prelude::*;
use serde::{Deserialize, Serialize};
use serde_json::Value;

use super::c12::lint_key;
use crate::core::{CaseCtx, Run, mix, h64};
use crate::generators::{self as g, harvest};

thread_local! {
    static GROUP: RefCell<Option<LintGroup>> = const { RefCell::new(None) };
}

fn lint_with_config(text: &str, cfg: LintGroupConfig) -> Vec<Lint> {
    let dict = FstDictionary::curated();
    let doc = Document::new(text, &PlainEnglish, &dict);
    GROUP.with(|g| {
        let mut slot = g.borrow_mut();
        let mut group = slot
            .take()
            .unwrap_or_else(|| LintGroup::new_curated(FstDictionary::curated(), Dialect::American));
        group.config = cfg;
        let l = group.lint(&doc);
        *slot = Some(group);
        l
    })
}

fn config_enabling(keys: &[&String]) -> LintGroupConfig {
    let mut cfg = LintGroupConfig::default();
    for k in &harvest().rule_keys {
        cfg.set_rule_enabled(k, false);
    }
    for k in keys {
        cfg.set_rule_enabled(k, true);
    }
    cfg
}

fn sorted_keys(l: &[Lint]) -> Vec<String> {
    let mut v: Vec<String> = l.iter().map(lint_key).collect();
    v.sort();
    v
}

#[derive(Debug, Clone, Serialize, Deserialize, PartialEq, Eq, Hash)]
pub struct AddCase {
    pub text: String,
    /// rule i is in S iff bit (hash(salt,key)) says so; None = all rules
    pub subset_salt: Option<u64>,
    /// partition salt: rule goes to A or B
    pub part_salt: u64,
    /// compare against the full decomposition into singletons as well
    pub singletons: bool,
}

pub fn test_additive(c: &AddCase, ctx: &mut CaseCtx) -> Result<(), String> {
    let keys = &harvest().rule_keys;
    let s: Vec<&String> = keys
        .iter()
        .filter(|k| match c.subset_salt {
            None => true,
            Some(salt) => mix(salt, h64(k.as_str())) & 1 == 1,
        })
        .collect();
    let (a, b): (Vec<&String>, Vec<&String>) = s
        .iter()
        .partition(|k| mix(c.part_salt, h64(k.as_str())) & 1 == 1);
    let run = |ks: &[&String]| lint_with_config(&c.text, config_enabling(ks));
    let (ls, la, lb) = match crate::core::catch(|| (run(&s), run(&a), run(&b))) {
        Ok(v) => v,
        Err(_) => {
            ctx.class("skipped_c01_panic");
            return Ok(());
        }
    };
    let whole = sorted_keys(&ls);
    let mut parts: Vec<String> = la.iter().chain(lb.iter()).map(lint_key).collect();
    parts.sort();
    let distinct_msgs: std::collections::HashSet<&str> = ls.iter().map(|l| l.message.as_str()).collect();
    ctx.class_if(distinct_msgs.len() >= 2, "two_rules_fire");
    ctx.class_if(!la.is_empty() && !lb.is_empty(), "both_parts_fire");
    ctx.class_if(c.singletons, "full_decomposition");
    if s.len() >= 2 && distinct_msgs.len() >= 2 {
        ctx.nontrivial(c);
    }
    if whole != parts {
        let only_whole: Vec<&String> = whole.iter().filter(|x| !parts.contains(x)).collect();
        let only_parts: Vec<&String> = parts.iter().filter(|x| !whole.contains(x)).collect();
        return Err(format!(
            "lints(S) != lints(A) + lints(B) for |S|={}, |A|={}, |B|={} on {:?}; only with S: {:?}; only in parts: {:?}",
            s.len(), a.len(), b.len(), c.text,
            only_whole.iter().take(2).collect::<Vec<_>>(),
            only_parts.iter().take(2).collect::<Vec<_>>()
        ));
    }
    if c.singletons {
        let mut singles: Vec<String> = vec![];
        let mut per_rule: BTreeMap<&String, usize> = BTreeMap::new();
        for k in &s {
            let l = run(&[*k]);
            per_rule.insert(k, l.len());
            singles.extend(l.iter().map(lint_key));
        }
        singles.sort();
        if singles != whole {
            return Err(format!(
                "lints(S) is not the sum of the single-rule runs on {:?}: {} vs {} lints",
                c.text,
                whole.len(),
                singles.len()
            ));
        }
        // switching one firing rule off removes exactly its lints
        if let Some((r, _)) = per_rule.iter().find(|(_, n)| **n > 0) {
            let without: Vec<&String> = s.iter().filter(|k| *k != r).copied().collect();
            let lw = sorted_keys(&run(&without));
            let mut expect = whole.clone();
            for k in run(&[*r]).iter().map(lint_key) {
                if let Some(p) = expect.iter().position(|x| *x == k) {
                    expect.remove(p);
                }
            }
            if lw != expect {
                return Err(format!(
                    "switching {r} off changed other rules' output on {:?}",
                    c.text
                ));
            }
        }
    }
    // unset counts as off: the rules outside S absent, null or false at random (a sparse
    // configuration, as direct library users build it) give the same lints as all of them false
    {
        let mut entries: Vec<(String, Option<bool>)> = vec![];
        for k in keys {
            if s.contains(&k) {
                entries.push((k.clone(), Some(true)));
            } else {
                match mix(c.part_salt ^ 0x5eed, h64(k.as_str())) % 3 {
                    0 => {}
                    1 => entries.push((k.clone(), None)),
                    _ => entries.push((k.clone(), Some(false))),
                }
            }
        }
        let sparse = crate::core::catch(|| lint_with_config(&c.text, config_from(&entries)));
        if let Ok(sp) = sparse {
            let sp = sorted_keys(&sp);
            ctx.class("sparse_configuration_compared");
            if sp != whole {
                let only_dense: Vec<&String> = whole.iter().filter(|x| !sp.contains(x)).take(2).collect();
                let only_sparse: Vec<&String> = sp.iter().filter(|x| !whole.contains(x)).take(2).collect();
                return Err(format!(
                    "the same {} rules switched on give other lints on {:?} when the remaining rules are unset / null instead of false: only with all others false {:?}; only with the sparse configuration {:?}",
                    s.len(), c.text, only_dense, only_sparse
                ));
            }
        }
    }
    // all-off produces nothing
    let none = run(&[]);
    if !none.is_empty() {
        return Err(format!(
            "with every rule switched off {} lints are still produced on {:?}: {:?}",
            none.len(),
            c.text,
            none[0].message
        ));
    }
    Ok(())
}

// ------------------------------------------------------------------------------------------------
// overlay algebra

#[derive(Debug, Clone, Serialize, Deserialize, PartialEq, Eq, Hash)]
pub struct OverlayCase {
    /// user config: key -> Some(true)/Some(false)/None(explicit null)
    pub user: Vec<(String, Option<bool>)>,
    pub other: Vec<(String, Option<bool>)>,
    pub text: String,
}

fn config_from(entries: &[(String, Option<bool>)]) -> LintGroupConfig {
    // built through JSON, the way user configurations arrive (null = unset)
    let map: serde_json::Map<String, Value> = entries
        .iter()
        .map(|(k, v)| (k.clone(), v.map(Value::Bool).unwrap_or(Value::Null)))
        .collect();
    serde_json::from_value(Value::Object(map)).expect("config json")
}

fn model(entries: &[(String, Option<bool>)]) -> BTreeMap<String, Option<bool>> {
    let mut m = BTreeMap::new();
    for (k, v) in entries {
        m.insert(k.clone(), *v); // later duplicates win, as in a JSON object
    }
    m
}

pub fn test_overlay(c: &OverlayCase, ctx: &mut CaseCtx) -> Result<(), String> {
    let keys = &harvest().rule_keys;
    let curated = LintGroupConfig::new_curated();
    let u = model(&c.user);
    let o = model(&c.other);
    let mut probe: Vec<String> = keys.clone();
    probe.extend(u.keys().cloned());
    probe.extend(o.keys().cloned());
    probe.sort();
    probe.dedup();
    let unknown = u.keys().any(|k| !keys.contains(k));
    ctx.class_if(unknown, "unknown_key");
    let n_unknown = u.keys().filter(|k| !keys.contains(*k)).count();
    let n_unmentioned = keys.iter().filter(|k| !u.contains_key(*k)).count();
    ctx.class_if(n_unknown > 0 && n_unmentioned > 0 && n_unknown >= n_unmentioned, "dump_with_as_many_unknown_as_missing_rules");
    ctx.class_if(u.values().any(|v| v.is_none()), "explicit_null");
    ctx.class_if(u.values().any(|v| *v == Some(false)), "explicit_off");
    if u.len() >= 2 {
        ctx.nontrivial(c);
    }

    // fill_with_curated: user choices win, unmentioned rules take curated defaults
    let mut filled = config_from(&c.user);
    filled.fill_with_curated();
    for k in &probe {
        let want = match u.get(k).copied().flatten() {
            Some(b) => b,
            None => curated.is_rule_enabled(k),
        };
        if filled.is_rule_enabled(k) != want {
            return Err(format!(
                "fill_with_curated: rule {k:?} is {} but user={:?}, curated={}",
                filled.is_rule_enabled(k),
                u.get(k),
                curated.is_rule_enabled(k)
            ));
        }
    }
    // merge_from: explicit values of `other` win, the rest is kept
    let mut merged = config_from(&c.user);
    let mut other = config_from(&c.other);
    merged.merge_from(&mut other);
    for k in &probe {
        let want = o
            .get(k)
            .copied()
            .flatten()
            .or(u.get(k).copied().flatten())
            .unwrap_or(false);
        if merged.is_rule_enabled(k) != want {
            return Err(format!(
                "merge_from: rule {k:?} is {} but self={:?}, other={:?}",
                merged.is_rule_enabled(k),
                u.get(k),
                o.get(k)
            ));
        }
    }
    // JSON round trip
    for cfg in [config_from(&c.user), filled.clone(), merged.clone()] {
        let json = serde_json::to_string(&cfg).map_err(|e| e.to_string())?;
        let back: LintGroupConfig = serde_json::from_str(&json).map_err(|e| e.to_string())?;
        if back != cfg {
            return Err(format!("configuration changed by a JSON round trip: {json}"));
        }
    }
    // clear: everything off
    let mut cleared = filled.clone();
    cleared.clear();
    if let Some(k) = probe.iter().find(|k| cleared.is_rule_enabled(k)) {
        return Err(format!("after clear() rule {k:?} is still enabled"));
    }
    // unknown keys are harmless: lints equal those without them
    if unknown && !c.text.is_empty() {
        let known_only: Vec<(String, Option<bool>)> = c
            .user
            .iter()
            .filter(|(k, _)| keys.contains(k))
            .cloned()
            .collect();
        let mut with = config_from(&c.user);
        with.fill_with_curated();
        let mut without = config_from(&known_only);
        without.fill_with_curated();
        let a = crate::core::catch(|| sorted_keys(&lint_with_config(&c.text, with)));
        let b = crate::core::catch(|| sorted_keys(&lint_with_config(&c.text, without)));
        match (a, b) {
            (Ok(a), Ok(b)) => {
                if a != b {
                    return Err(format!("an unknown rule name changed the lints of {:?}", c.text));
                }
            }
            (Err(p), Ok(_)) => {
                return Err(format!("an unknown rule name caused a panic at {}", p.site()));
            }
            _ => {}
        }
    }
    Ok(())
}

// ------------------------------------------------------------------------------------------------
// the configuration API on a live linter

#[derive(Debug, Clone, Serialize, Deserialize, PartialEq, Eq, Hash)]
pub enum CfgOp {
    Set(String, bool),
    Unset(String),
    SetIfUnset(String, bool),
    Clear,
    MergeFrom(Vec<(String, Option<bool>)>),
    FillCurated,
    /// LintGroup::set_all_rules_to
    SetAll(Option<bool>),
    Lint,
}

#[derive(Debug, Clone, Serialize, Deserialize, PartialEq, Eq, Hash)]
pub struct LiveCase {
    pub text: String,
    pub ops: Vec<CfgOp>,
}

/// One long-lived `LintGroup` whose public `config` is mutated through every method of the
/// configuration API, with lints of the same text in between. Model: a map rule -> on / off /
/// null / absent, written from the methods' documentation. After every step the switches read
/// back as the model says, the configuration survives a JSON round trip, and linting gives what
/// a fresh linter with the model's switches gives.
pub fn test_live(c: &LiveCase, ctx: &mut CaseCtx) -> Result<(), String> {
    let keys = &harvest().rule_keys;
    let curated = LintGroupConfig::new_curated();
    let dict = FstDictionary::curated();
    let doc = Document::new(&c.text, &PlainEnglish, &dict);
    let mut group = LintGroup::new_curated(dict.clone(), Dialect::American);
    let mut model: BTreeMap<String, Option<bool>> = BTreeMap::new();
    // new_curated starts from the curated configuration
    for k in keys {
        model.insert(k.clone(), Some(curated.is_rule_enabled(k)));
    }
    let mut lints_done = 0;
    let mut changed_after_lint = false;
    for (step, op) in c.ops.iter().enumerate() {
        match op {
            CfgOp::Set(k, v) => {
                group.config.set_rule_enabled(k, *v);
                model.insert(k.clone(), Some(*v));
            }
            CfgOp::Unset(k) => {
                group.config.unset_rule_enabled(k);
                model.remove(k);
            }
            CfgOp::SetIfUnset(k, v) => {
                group.config.set_rule_enabled_if_unset(k, *v);
                model.entry(k.clone()).or_insert(Some(*v));
            }
            CfgOp::Clear => {
                group.config.clear();
                for v in model.values_mut() {
                    *v = None;
                }
            }
            CfgOp::MergeFrom(entries) => {
                let mut other = config_from(entries);
                group.config.merge_from(&mut other);
                for (k, v) in self::model(entries) {
                    if v.is_some() {
                        model.insert(k, v);
                    }
                }
            }
            CfgOp::FillCurated => {
                group.config.fill_with_curated();
                // the curated configuration, overridden by every explicit (non-null) choice; a
                // null entry is "not mentioned" and does not survive
                let explicit: Vec<(String, Option<bool>)> = model.iter().filter(|(_, v)| v.is_some()).map(|(k, v)| (k.clone(), *v)).collect();
                model.clear();
                for k in keys {
                    model.insert(k.clone(), Some(curated.is_rule_enabled(k)));
                }
                model.extend(explicit);
            }
            CfgOp::SetAll(v) => {
                group.set_all_rules_to(*v);
                for k in keys {
                    match v {
                        Some(b) => {
                            model.insert(k.clone(), Some(*b));
                        }
                        None => {
                            model.remove(k);
                        }
                    }
                }
            }
            CfgOp::Lint => {}
        }
        if !matches!(op, CfgOp::Lint) && lints_done > 0 {
            changed_after_lint = true;
        }
        // the switches read back as the model says
        for k in keys.iter().chain(model.keys()) {
            let want = model.get(k).copied().flatten().unwrap_or(false);
            if group.config.is_rule_enabled(k) != want {
                return Err(format!("step {step} ({op:?}): rule {k:?} reads {} but the operations so far make it {:?}", group.config.is_rule_enabled(k), model.get(k)));
            }
        }
        // a configuration with the same switches, rebuilt from the model through JSON
        let entries: Vec<(String, Option<bool>)> = model.iter().map(|(k, v)| (k.clone(), *v)).collect();
        let rebuilt = config_from(&entries);
        let json = serde_json::to_string(&group.config).map_err(|e| e.to_string())?;
        let back: LintGroupConfig = serde_json::from_str(&json).map_err(|e| e.to_string())?;
        if back != group.config {
            return Err(format!("step {step} ({op:?}): the configuration changes in a JSON round trip"));
        }
        if matches!(op, CfgOp::Lint) || step + 1 == c.ops.len() {
            let live = crate::core::catch(std::panic::AssertUnwindSafe(|| group.lint(&doc)));
            let fresh = crate::core::catch(|| LintGroup::new_curated(dict.clone(), Dialect::American).with_lint_config(rebuilt.clone()).lint(&doc));
            let (Ok(live), Ok(fresh)) = (live, fresh) else {
                ctx.class("skipped_c01_panic");
                return Ok(());
            };
            lints_done += 1;
            if sorted_keys(&live) != sorted_keys(&fresh) {
                let (l, f) = (sorted_keys(&live), sorted_keys(&fresh));
                return Err(format!(
                    "step {step}: after {:?} the long-lived linter reports {} lints on {:?}, a fresh linter with the same configuration {}; only live: {:?}; only fresh: {:?}",
                    &c.ops[..=step].iter().filter(|o| !matches!(o, CfgOp::Lint)).collect::<Vec<_>>(),
                    l.len(), c.text, f.len(),
                    l.iter().filter(|x| !f.contains(x)).take(2).collect::<Vec<_>>(),
                    f.iter().filter(|x| !l.contains(x)).take(2).collect::<Vec<_>>()
                ));
            }
        }
    }
    ctx.class_if(changed_after_lint, "configuration_changed_between_two_lints");
    ctx.class_if(c.ops.iter().any(|o| matches!(o, CfgOp::SetAll(Some(false)))), "all_rules_switched_off_at_once");
    ctx.class_if(c.ops.iter().any(|o| matches!(o, CfgOp::MergeFrom(_))), "merge_from_on_a_live_configuration");
    if changed_after_lint {
        ctx.nontrivial(c);
    }
    Ok(())
}

fn live_strategy() -> BoxedStrategy<LiveCase> {
    // rules that fire on the text are what makes a stale switch visible
    let firing = || g::sel_str(&["ThenThan", "BoringWords", "BackInTheDay", "ModalOf", "SpellCheck", "AnA", "RepeatedWords", "ThereIs", "LongSentences", "SentenceCapitalization", "Hedging"]);
    let key = move || prop_oneof![4 => firing(), 3 => g::rule_key(), 1 => g::sel_str(&["NoSuchRule", ""])];
    let entries = move || proptest::collection::vec((key(), prop_oneof![2 => Just(Some(true)), 2 => Just(Some(false)), 1 => Just(None)]), 0..5);
    let op = prop_oneof![
        3 => (key(), any::<bool>()).prop_map(|(k, v)| CfgOp::Set(k, v)),
        2 => key().prop_map(CfgOp::Unset),
        1 => (key(), any::<bool>()).prop_map(|(k, v)| CfgOp::SetIfUnset(k, v)),
        1 => Just(CfgOp::Clear),
        3 => entries().prop_map(CfgOp::MergeFrom),
        2 => Just(CfgOp::FillCurated),
        2 => prop_oneof![Just(Some(false)), Just(Some(true)), Just(None)].prop_map(CfgOp::SetAll),
        5 => Just(CfgOp::Lint),
    ];
    let text = prop_oneof![
        3 => Just("He is taller then her. It was very very good back in the days, I could of gone. their is an problem and and it is kind of boring.".to_string()),
        2 => multi_rule_text(),
    ];
    (text, proptest::collection::vec(op, 2..12)).prop_map(|(text, ops)| LiveCase { text, ops }).boxed()
}

// ------------------------------------------------------------------------------------------------
// external format: harper.js linter (`set_lint_config_from_json` + `lint`)

#[derive(Debug, Clone, Serialize, Deserialize, PartialEq, Eq, Hash)]
pub struct WasmCfgCase {
    pub user: Vec<(String, Option<bool>)>,
    pub text: String,
    /// what the page does with the same Linter after the first check, before checking again:
    /// 0 import a new word, 1 import it again, 2 check as Markdown, 3 check as plain text,
    /// 4 read the configuration, 5 export the words, 6 clear the ignore list
    #[serde(default)]
    pub later: Vec<u8>,
}

pub fn test_wasm_config(c: &WasmCfgCase, ctx: &mut CaseCtx) -> Result<(), String> {
    let json = serde_json::to_string(&config_from(&c.user)).map_err(|e| e.to_string())?;
    let mut linter = harper_wasm::Linter::new(harper_wasm::Dialect::American);
    linter
        .set_lint_config_from_json(json.clone())
        .map_err(|e| format!("set_lint_config_from_json rejected {json}: {e}"))?;
    let got = match crate::core::catch(|| linter.lint(c.text.clone(), harper_wasm::Language::Plain)) {
        Ok(l) => l,
        Err(_) => {
            ctx.class("skipped_c01_panic");
            return Ok(());
        }
    };
    // model: curated overlaid with the user's explicit choices, then overlap removal
    let mut cfg = config_from(&c.user);
    cfg.fill_with_curated();
    let mut want = lint_with_config(&c.text, cfg);
    harper_core::remove_overlaps(&mut want);
    let mut a: Vec<(usize, usize, String)> = got
        .iter()
        .map(|l| (l.span().start, l.span().end, l.message()))
        .collect();
    let mut b: Vec<(usize, usize, String)> = want
        .iter()
        .map(|l| (l.span.start, l.span.end, l.message.clone()))
        .collect();
    a.sort();
    b.sort();
    ctx.class_if(!b.is_empty(), "has_lints");
    ctx.class_if(c.user.iter().any(|(_, v)| *v == Some(false)), "explicit_off");
    if !b.is_empty() && c.user.len() >= 2 {
        ctx.nontrivial(c);
    }
    if a != b {
        return Err(format!(
            "harper.js linter with config {json} reports {:?} on {:?}; the in-process model (curated overlaid with user choices) gives {:?}",
            a, c.text, b
        ));
    }
    // the switches stay in force whatever else the page does with the Linter afterwards
    // (the imported words occur in no text, so the expected lints do not change)
    if !c.later.is_empty() {
        let mut new_words = 0usize;
        for (k, step) in c.later.iter().enumerate() {
            let r = crate::core::catch(|| match step % 7 {
                0 => {
                    new_words += 1;
                    linter.import_words(vec![format!("zqpageword{k}")]);
                }
                1 => linter.import_words(vec!["zqpageword0".to_string()]),
                2 => {
                    let _ = linter.lint(c.text.clone(), harper_wasm::Language::Markdown);
                }
                3 => {
                    let _ = linter.lint(c.text.clone(), harper_wasm::Language::Plain);
                }
                4 => {
                    let _ = linter.get_lint_config_as_json();
                }
                5 => {
                    let _ = linter.export_words();
                }
                _ => linter.clear_ignored_lints(),
            });
            if r.is_err() {
                ctx.class("skipped_c01_panic");
                return Ok(());
            }
        }
        ctx.class_if(new_words > 0, "words_imported_between_two_checks");
        let again = match crate::core::catch(|| linter.lint(c.text.clone(), harper_wasm::Language::Plain)) {
            Ok(l) => l,
            Err(_) => {
                ctx.class("skipped_c01_panic");
                return Ok(());
            }
        };
        let mut a2: Vec<(usize, usize, String)> = again.iter().map(|l| (l.span().start, l.span().end, l.message())).collect();
        a2.sort();
        if a2 != b {
            return Err(format!(
                "harper.js linter with config {json}: after the steps {:?} (0 import a new word, 1 import a known word, 2/3 check as Markdown/plain, 4 read the configuration, 5 export words, 6 clear ignores) the same Linter reports {:?} on {:?}; the model (curated overlaid with the user's choices) gives {:?}",
                c.later, a2, c.text, b
            ));
        }
        // and the configuration it reports still carries every explicit choice
        let dump: serde_json::Value = serde_json::from_str(&linter.get_lint_config_as_json()).map_err(|e| e.to_string())?;
        let mut last: std::collections::BTreeMap<&str, Option<bool>> = Default::default();
        for (k, v) in &c.user {
            last.insert(k.as_str(), *v);
        }
        for (k, v) in last {
            if let Some(v) = v {
                if dump.get(k) != Some(&serde_json::Value::Bool(v)) {
                    return Err(format!(
                        "harper.js linter with config {json}: after the steps {:?} get_lint_config_as_json reports {:?} for {k:?}, the user chose {v}",
                        c.later, dump.get(k)
                    ));
                }
            }
        }
    }
    Ok(())
}

// ------------------------------------------------------------------------------------------------
// external format: language-server settings {"harper-ls": {"linters": {...}, "dialect": ..}}

#[derive(Debug, Clone, Serialize, Deserialize, PartialEq, Eq, Hash)]
pub struct LspCfgCase {
    pub user: Vec<(String, Option<bool>)>,
    pub dialect: u8,
    pub text: String,
}

thread_local! {
    static SRV: RefCell<Option<(crate::lsp::Sandbox, crate::lsp::Server, u64)>> = const { RefCell::new(None) };
}

pub fn test_lsp_config(c: &LspCfgCase, ctx: &mut CaseCtx) -> Result<(), String> {
    use crate::oracle::lsp_pos::index_to_pos;
    let dialect_name = ["American", "British", "Australian", "Canadian"][c.dialect as usize % 4];
    let linters: serde_json::Map<String, Value> = c
        .user
        .iter()
        .map(|(k, v)| (k.clone(), v.map(Value::Bool).unwrap_or(Value::Null)))
        .collect();
    let text: Vec<char> = c.text.chars().collect();
    // model: curated defaults overlaid with the user's choices
    let mut cfg = config_from(&c.user);
    cfg.fill_with_curated();
    let dict = FstDictionary::curated();
    let doc = Document::new(&c.text, &PlainEnglish, &dict);
    let dialect = crate::generators::DIALECTS[c.dialect as usize % 4];
    let mut group = LintGroup::new_curated(dict.clone(), dialect).with_lint_config(cfg);
    let want = match crate::core::catch(|| group.lint(&doc)) {
        Ok(l) => l,
        Err(_) => {
            ctx.class("skipped_c01_panic");
            return Ok(());
        }
    };
    // where to ask for quick fixes: wherever this configuration or the curated one has a lint
    let curated_lints = crate::core::catch(|| LintGroup::new_curated(dict.clone(), dialect).lint(&doc)).unwrap_or_default();
    let mut probes: Vec<usize> = want.iter().chain(curated_lints.iter()).map(|l| l.span.start).collect();
    probes.sort();
    probes.dedup();
    probes.truncate(24);

    let res: Result<(Vec<crate::lsp::Diag>, Vec<(usize, Value)>, Vec<crate::lsp::Diag>), crate::lsp::LspError> = SRV.with(|slot| {
        let mut slot = slot.borrow_mut();
        if slot.is_none() {
            let sb = crate::lsp::Sandbox::new("c11");
            let settings = sb.settings(serde_json::json!({}));
            let srv = crate::lsp::Server::start(&sb, settings, None)?;
            *slot = Some((sb, srv, 0));
        }
        let r = (|| {
            let (sb, srv, n) = slot.as_mut().unwrap();
            *n += 1;
            let settings = sb.settings(serde_json::json!({"linters": linters, "dialect": dialect_name}));
            srv.settings = settings.clone();
            srv.notify("workspace/didChangeConfiguration", serde_json::json!({"settings": settings}))?;
            let uri = sb.uri(&format!("cfg{n}.txt"));
            let d = srv.open(&uri, "plaintext", &c.text)?;
            // the quick fixes: computed by a second lint run inside the server
            let mut actions = vec![];
            for p in &probes {
                let pos = index_to_pos(&text, *p);
                actions.push((*p, srv.code_actions(&uri, (pos.line, pos.col), (pos.line, pos.col))?));
            }
            // the same text sent again as an edit: the configuration still applies after the
            // code-action requests
            let d2 = srv.change(&uri, 2, &c.text)?;
            srv.close(&uri)?;
            Ok((d, actions, d2))
        })();
        if r.is_err() {
            *slot = None;
        }
        r
    });
    let (got, actions, got_again) = match res {
        Ok(d) => d,
        Err(e) => {
            ctx.infra(e);
            return Ok(());
        }
    };
    let mut a: Vec<String> = got.iter().map(|d| format!("{:?}-{:?} {}", d.start, d.end, d.message)).collect();
    let mut b: Vec<String> = want
        .iter()
        .map(|l| {
            let s = index_to_pos(&text, l.span.start);
            let e = index_to_pos(&text, l.span.end);
            format!("{:?}-{:?} {}", (s.line, s.col), (e.line, e.col), l.message)
        })
        .collect();
    a.sort();
    b.sort();
    let off_default_on = c.user.iter().any(|(k, v)| *v == Some(true) && !LintGroupConfig::new_curated().is_rule_enabled(k) && harvest().rule_keys.contains(k));
    ctx.class_if(off_default_on, "turns_on_a_default_off_rule");
    ctx.class_if(!b.is_empty(), "has_lints");
    ctx.class_if(c.user.iter().any(|(_, v)| *v == Some(false)), "explicit_off");
    if !b.is_empty() && !c.user.is_empty() {
        ctx.nontrivial(c);
    }
    if a != b {
        return Err(format!(
            "harper-ls with linters={} dialect={dialect_name} publishes {:?} for {:?}; the model (curated overlaid with the user's choices) gives {:?}",
            Value::Object(linters), a, c.text, b
        ));
    }
    let mut a2: Vec<String> = got_again.iter().map(|d| format!("{:?}-{:?} {}", d.start, d.end, d.message)).collect();
    a2.sort();
    if a2 != b {
        return Err(format!(
            "harper-ls with linters={} dialect={dialect_name}: after {} code-action requests an edit that re-sends {:?} publishes {:?}; this configuration gives {:?}",
            Value::Object(linters), actions.len(), c.text, a2, b
        ));
    }
    // the lints behind the code actions (every group of actions ends with an "ignore" command
    // that carries its lint) are the lints of the same configuration
    for (p, ans) in &actions {
        let mut acted: Vec<String> = ans
            .as_array()
            .map(|arr| {
                arr.iter()
                    .filter(|x| x["command"].as_str() == Some("HarperIgnoreLint"))
                    .map(|x| {
                        let l = &x["arguments"][1];
                        format!("{}..{} {}", l["span"]["start"], l["span"]["end"], l["message"].as_str().unwrap_or(""))
                    })
                    .collect()
            })
            .unwrap_or_default();
        let mut wanted: Vec<String> = want
            .iter()
            .filter(|l| l.span.start < p + 1 && *p < l.span.end)
            .map(|l| format!("{}..{} {}", l.span.start, l.span.end, l.message))
            .collect();
        acted.sort();
        acted.dedup();
        wanted.sort();
        wanted.dedup();
        if wanted.is_empty() {
            ctx.class("code_actions_asked_where_only_the_curated_config_has_a_lint");
        } else {
            ctx.class("code_actions_compared");
        }
        if acted != wanted {
            return Err(format!(
                "harper-ls with linters={} dialect={dialect_name}: the code actions at char {p} of {:?} belong to the lints {:?}; this configuration has {:?} there",
                Value::Object(linters), c.text, acted, wanted
            ));
        }
    }
    Ok(())
}

/// What a settings file written by a GUI (or by an older release) looks like: nearly every rule
/// pinned, a few missing, a few names the current release does not know.
fn settings_dump() -> BoxedStrategy<Vec<(String, Option<bool>)>> {
    (
        proptest::collection::vec(any::<u16>(), 0..6),
        proptest::collection::vec(any::<bool>(), 400),
        0usize..8,
        0u8..3,
    )
        .prop_map(|(missing, vals, unknown, mode)| {
            let keys = &harvest().rule_keys;
            let curated = LintGroupConfig::new_curated();
            let skip: Vec<usize> = missing.iter().map(|m| (*m as usize * keys.len()) >> 16).collect();
            let mut out: Vec<(String, Option<bool>)> = keys
                .iter()
                .enumerate()
                .filter(|(i, _)| !skip.contains(i))
                .map(|(i, k)| {
                    let v = match mode {
                        0 => curated.is_rule_enabled(k),   // a dump of the defaults
                        1 => !curated.is_rule_enabled(k),  // everything flipped
                        _ => vals[i % vals.len()],
                    };
                    (k.clone(), Some(v))
                })
                .collect();
            for u in 0..unknown {
                out.push((format!("RuleFromAnOlderRelease{u}"), Some(u % 2 == 0)));
            }
            out
        })
        .boxed()
}

fn user_entries() -> BoxedStrategy<Vec<(String, Option<bool>)>> {
    prop_oneof![5 => few_entries(), 1 => settings_dump()].boxed()
}

fn few_entries() -> BoxedStrategy<Vec<(String, Option<bool>)>> {
    let key = prop_oneof![
        10 => g::rule_key(),
        2 => g::sel_str(&["SpellCheck", "SentenceCapitalization", "RepeatedWords", "AnA", "LongSentences", "SpelledNumbers", "BoringWords", "Intact"]),
        1 => g::sel_str(&["NoSuchRule", "", "spellcheck", "😀", "Spell Check"]),
    ];
    proptest::collection::vec(
        (key, prop_oneof![2 => Just(Some(true)), 2 => Just(Some(false)), 1 => Just(None)]),
        0..8,
    )
    .boxed()
}

fn multi_rule_text() -> BoxedStrategy<String> {
    prop_oneof![
        3 => proptest::collection::vec(g::harvested_sentence(), 1..4).prop_map(|v| v.join(" ")),
        2 => g::text(),
        1 => Just("their is an apple and and teh the the cat, it could of been an problem. there fore i go to to the 1nd shop".to_string()),
    ]
    .boxed()
}

pub fn run(run: &mut Run) {
    let n = run.n(1_500, 50_000);
    run.prop("live_linter_configuration", n, live_strategy, test_live);
    run.require_class("live_linter_configuration", "configuration_changed_between_two_lints", (n / 3) as u64);
    run.require_class("live_linter_configuration", "all_rules_switched_off_at_once", (n / 20) as u64);
    run.require_class("live_linter_configuration", "merge_from_on_a_live_configuration", (n / 5) as u64);
    run.rule = "(a) additivity: documents of 1-3 harvested rule sentences / G-TEXT; S = all rules or a random subset, random 2-partition A+B: multiset(lints(S)) == lints(A)+lints(B), all-off gives nothing; a share of cases also compare with the sum over all single-rule runs and check that switching one firing rule off removes exactly its lints. Rules = distinct configuration keys. (b) overlay algebra against a map model: fill_with_curated, merge_from, clear, JSON round trip, unknown keys harmless (built through JSON incl. explicit null). (d) harper.js linter: set_lint_config_from_json + lint equals the in-process model. Non-trivial (a) = |S|>=2 and >=2 different rules fire. User configurations are 0-7 entries or a settings dump (nearly every rule pinned, 0-5 missing, 0-7 names the release does not know). In language_server_settings the quick fixes are requested at every position where this configuration or the curated one has a lint: the lints carried by the code actions must be the lints of this configuration at that position.".into();
    let n = run.n(2_000, 50_000);
    let singles_share = run.tier.pick(40u32, 25u32);
    run.prop(
        "additivity",
        n,
        move || {
            (
                multi_rule_text(),
                proptest::option::weighted(0.6, any::<u64>()),
                any::<u64>(),
                (0u32..singles_share).prop_map(|x| x == 0),
            )
                .prop_map(|(text, subset_salt, part_salt, singletons)| AddCase {
                    text,
                    subset_salt,
                    part_salt,
                    singletons,
                })
                .boxed()
        },
        test_additive,
    );
    run.require_class("additivity", "two_rules_fire", (n / 5) as u64);
    run.require_class("additivity", "both_parts_fire", (n / 10) as u64);
    run.require_class("additivity", "full_decomposition", (n / 200) as u64);

    let n = run.n(20_000, 500_000);
    run.prop(
        "overlay_algebra",
        n,
        || {
            (user_entries(), user_entries(), prop_oneof![3 => Just(String::new()), 1 => g::harvested_sentence()])
                .prop_map(|(user, other, text)| OverlayCase { user, other, text })
                .boxed()
        },
        test_overlay,
    );
    run.require_class("overlay_algebra", "unknown_key", (n / 20) as u64);
    run.require_class("overlay_algebra", "dump_with_as_many_unknown_as_missing_rules", (n / 100) as u64);
    run.require_class("overlay_algebra", "explicit_null", (n / 10) as u64);

    let n = run.n(600, 20_000);
    run.prop(
        "harper_js_config",
        n,
        || {
            (user_entries(), multi_rule_text(), proptest::collection::vec(prop_oneof![3 => Just(0u8), 4 => 1u8..7], 0..5))
                .prop_map(|(user, text, later)| WasmCfgCase { user, text, later })
                .boxed()
        },
        test_wasm_config,
    );
    run.require_class("harper_js_config", "has_lints", (n / 3) as u64);
    run.require_class("harper_js_config", "words_imported_between_two_checks", (n / 4) as u64);

    let n = run.n(200, 5_000);
    let saved = run.threads;
    run.threads = run.threads.min(8);
    run.prop(
        "language_server_settings",
        n,
        || {
            let default_off = prop_oneof![
                3 => g::sel_str(&["SpelledNumbers", "LinkingVerbs", "BoringWords", "UseGenitive", "NoOxfordComma"]).prop_map(|k| vec![(k, Some(true))]),
                2 => Just(vec![]),
            ];
            let text = prop_oneof![
                3 => multi_rule_text(),
                2 => Just("There are 3 very boring things, apples, pears and plums. The house of the neighbour seems nice; it is very good.".to_string()),
            ];
            (user_entries(), default_off, 0u8..4, text)
                .prop_map(|(mut user, extra, dialect, text)| {
                    user.extend(extra);
                    LspCfgCase { user, dialect, text }
                })
                .boxed()
        },
        test_lsp_config,
    );
    run.threads = saved;
    run.require_class("language_server_settings", "has_lints", (n / 3) as u64);
    run.require_class("language_server_settings", "turns_on_a_default_off_rule", (n / 5) as u64);
    run.require_class("language_server_settings", "code_actions_compared", n as u64);
    run.require_class("language_server_settings", "code_actions_asked_where_only_the_curated_config_has_a_lint", (n / 20) as u64);
}

pub fn replay(check: &str, case: Value, _run: &mut Run) -> Result<(), String> {
    if check == "live_linter_configuration" {
        let c: LiveCase = serde_json::from_value(case).map_err(|e| e.to_string())?;
        return test_live(&c, &mut CaseCtx::default());
    }
    let mut ctx = CaseCtx::default();
    match check {
        "overlay_algebra" => {
            let c: OverlayCase = serde_json::from_value(case).map_err(|e| e.to_string())?;
            test_overlay(&c, &mut ctx)
        }
        "language_server_settings" => {
            let c: LspCfgCase = serde_json::from_value(case).map_err(|e| e.to_string())?;
            let r = test_lsp_config(&c, &mut ctx);
            SRV.with(|s| {
                if let Some((_, srv, _)) = s.borrow_mut().take() {
                    let _ = srv.shutdown();
                }
            });
            r
        }
        "harper_js_config" => {
            let c: WasmCfgCase = serde_json::from_value(case).map_err(|e| e.to_string())?;
            test_wasm_config(&c, &mut ctx)
        }
        _ => {
            let c: AddCase = serde_json::from_value(case).map_err(|e| e.to_string())?;
            test_additive(&c, &mut ctx)
        }
    }
}
