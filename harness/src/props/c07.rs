//! C07 — words the user adds to a dictionary are accepted from then on and never lost.

use std::collections::{BTreeMap, BTreeSet};
use std::path::{Path, PathBuf};

use proptest::prelude::*;
use serde::{Deserialize, Serialize};
use serde_json::{Value, json};

use crate::core::{CaseCtx, Run, pick_idx};
use crate::generators as g;
use crate::lsp::strace::{Sys, parse_trace, strace_wrapper};
use crate::lsp::{Diag, LspError, Sandbox, Server};
use crate::oracle::lsp_pos::{Pos, pos_to_index};

pub const KF_CASE: &str = "KF-C07-case-variant-replaces-entry";

/// Non-words a code action could offer (text of a flagged Word token): ASCII, non-ASCII Latin,
/// apostrophes (straight and curly). No two differ only in case (that is KF_CASE's sub-run).
const VOCAB: &[&str] = &[
    "frobnix", "Zorblax", "qwertzu", "naïvetéx", "blorf's", "snarfle", "ünïcödé", "xkcdish",
    "glimmerfex", "Quuxly", "vexillog", "wibblet", "tharnok", "mooblex", "zyzzyvaq", "plonkish",
    "crèmex", "drelb’s",
    // lower-case forms of capitalised curated entries: flagged until the user adds them
    "github", "linux", "monday", "iphone",
    // entries the curated dictionary lists for another dialect than the default (American) one
    "colour", "instil",
    // the words of the pre-existing dictionary files (PRESEEDS)
    "quuxify", "wibblefrotz",
];

/// user dictionary files as a user (or another tool) may have left them on disk
const PRESEEDS: &[&str] = &["", "", "quuxify\nwibblefrotz\n", "quuxify\nwibblefrotz", "quuxify", "quuxify\n\nwibblefrotz\n", "quuxify\r\nwibblefrotz\r\n", "wibblefrotz\r\nquuxify"];

#[derive(Debug, Clone, Serialize, Deserialize, PartialEq, Eq, Hash)]
pub enum Op {
    /// add the word of the sel-th spelling diagnostic of document `doc` to the user dictionary
    AddUser { doc: u8, sel: u16 },
    AddFile { doc: u8, sel: u16 },
    /// replace the document's text (new word selection)
    Change { doc: u8, words: Vec<u8> },
    Restart,
    /// the user edits the user-dictionary file by hand: 0 flip the case of the first letter of one
    /// word, 1 append a vocabulary word (no trailing newline), 2 remove a word
    EditDictFile { kind: u8, sel: u16 },
}

#[derive(Debug, Clone, Serialize, Deserialize, PartialEq, Eq, Hash)]
pub struct DictCase {
    /// per document: language id and the vocabulary indices it mentions
    pub docs: Vec<(String, Vec<u8>)>,
    pub ops: Vec<Op>,
    /// index into PRESEEDS: content of the user dictionary file before the session
    #[serde(default)]
    pub preseed: u8,
}

fn vocab(i: u8) -> &'static str {
    VOCAB[i as usize % VOCAB.len()]
}

fn doc_text(lang: &str, words: &[u8]) -> String {
    let mut s = String::new();
    for (i, w) in words.iter().enumerate() {
        let w = vocab(*w);
        s.push_str(&match i % 3 {
            0 => format!("We like the {w} very much.\n"),
            1 => format!("Is {w} here?\n"),
            _ => format!("They said {w}, again.\n"),
        });
    }
    s.push_str("This is an test line.\n");
    match lang {
        "rust" => s.lines().map(|l| format!("// {l}\n")).collect(),
        "python" => s.lines().map(|l| format!("# {l}\n")).collect(),
        _ => s,
    }
}

fn ext(lang: &str) -> &'static str {
    match lang {
        "markdown" => "md",
        "rust" => "rs",
        "python" => "py",
        _ => "txt",
    }
}

fn is_spelling(d: &Diag) -> bool {
    d.message.starts_with("Did you mean")
}

fn diag_text(text: &str, d: &Diag) -> String {
    let c: Vec<char> = text.chars().collect();
    let s = pos_to_index(&c, Pos { line: d.start.0, col: d.start.1 });
    let e = pos_to_index(&c, Pos { line: d.end.0, col: d.end.1 });
    c[s..e.max(s)].iter().collect()
}

/// Like `keys`, but a spelling diagnostic is identified by its place and the flagged word only:
/// its message and suggestions quote the nearest dictionary words, and those legitimately change
/// when the dictionary gains a word.
fn keys_modulo_suggestions(text: &str, ds: &[Diag]) -> Vec<String> {
    let mut v: Vec<String> = ds
        .iter()
        .map(|d| {
            if is_spelling(d) {
                format!("{:?}-{:?} spelling of {:?}", d.start, d.end, diag_text(text, d))
            } else {
                d.key()
            }
        })
        .collect();
    v.sort();
    v
}

fn keys(ds: &[Diag]) -> Vec<String> {
    let mut v: Vec<String> = ds.iter().map(|d| d.key()).collect();
    v.sort();
    v
}

fn read_lines(p: &Path) -> BTreeSet<String> {
    std::fs::read_to_string(p)
        .map(|s| s.lines().map(|l| l.to_string()).collect())
        .unwrap_or_default()
}

/// file_dict_name as documented: path components joined (and terminated) by '%'
fn file_dict_file(sb: &Sandbox, doc_path: &Path) -> PathBuf {
    let mut name = String::new();
    for seg in doc_path.components() {
        if !matches!(seg, std::path::Component::RootDir) {
            name.push_str(&seg.as_os_str().to_string_lossy());
            name.push('%');
        }
    }
    sb.file_dict_dir().join(name)
}

struct Session {
    sb: Sandbox,
    srv: Option<Server>,
    texts: Vec<String>,
    langs: Vec<String>,
    diags: Vec<Vec<Diag>>,
    version: i64,
}

/// file names as users have them: plain, with a space, with non-ASCII letters and a `%`
fn doc_name(i: usize, ext: &str) -> String {
    match i % 3 {
        0 => format!("doc{i}.{ext}"),
        1 => format!("read me {i}.{ext}"),
        _ => format!("naïve 100% #{i}.{ext}"),
    }
}

/// `file:` URI of a path, percent-encoded the way editors send it
fn file_uri(p: &Path) -> String {
    let mut out = String::from("file://");
    for b in p.to_string_lossy().bytes() {
        if b.is_ascii_alphanumeric() || matches!(b, b'/' | b'-' | b'.' | b'_' | b'~') {
            out.push(b as char);
        } else {
            out.push_str(&format!("%{b:02X}"));
        }
    }
    out
}

impl Session {
    fn uri(&self, i: usize) -> String {
        file_uri(&self.path(i))
    }
    fn path(&self, i: usize) -> PathBuf {
        self.sb.ws_file(&doc_name(i, ext(&self.langs[i])))
    }
    fn start(&mut self) -> Result<(), LspError> {
        let settings = self.sb.settings(json!({}));
        let mut srv = Server::start(&self.sb, settings, None)?;
        for i in 0..self.texts.len() {
            std::fs::write(self.path(i), &self.texts[i]).map_err(|e| LspError::Protocol(e.to_string()))?;
            self.diags[i] = srv.open(&self.uri(i), &self.langs[i].clone(), &self.texts[i].clone())?;
        }
        self.srv = Some(srv);
        Ok(())
    }
    /// re-check document i (same text): what a subsequent check reports
    fn relint(&mut self, i: usize) -> Result<(), LspError> {
        self.version += 1;
        let (uri, text, v) = (self.uri(i), self.texts[i].clone(), self.version);
        self.diags[i] = self.srv.as_mut().unwrap().change(&uri, v, &text)?;
        Ok(())
    }
}

pub fn test_history(c: &DictCase, ctx: &mut CaseCtx) -> Result<(), String> {
    match history(c, ctx, false) {
        Ok(r) => r,
        Err(e) => {
            ctx.infra(e);
            Ok(())
        }
    }
}

/// `allow_case_variants`: the finding sub-run feeds case variants on purpose
fn history(c: &DictCase, ctx: &mut CaseCtx, _allow_case_variants: bool) -> Result<Result<(), String>, LspError> {
    if c.docs.is_empty() {
        return Ok(Ok(()));
    }
    let langs: Vec<String> = c.docs.iter().map(|d| d.0.clone()).collect();
    let texts: Vec<String> = c.docs.iter().map(|d| doc_text(&d.0, &d.1)).collect();
    let n = texts.len();
    let mut s = Session {
        sb: Sandbox::new("c07"),
        srv: None,
        texts,
        langs,
        diags: vec![vec![]; n],
        version: 1,
    };
    let pre = PRESEEDS[c.preseed as usize % PRESEEDS.len()];
    if !pre.is_empty() {
        let _ = std::fs::create_dir_all(s.sb.user_dict().parent().unwrap());
        std::fs::write(s.sb.user_dict(), pre).map_err(|e| LspError::Protocol(e.to_string()))?;
    }
    s.start()?;
    // a dictionary file on disk counts as words added so far (one per non-empty line)
    let mut user: BTreeSet<String> = pre.lines().filter(|l| !l.is_empty()).map(|l| l.to_string()).collect();
    ctx.class_if(!pre.is_empty() && !pre.ends_with('\n'), "preseeded_file_without_trailing_newline");
    let mut file: BTreeMap<usize, BTreeSet<String>> = BTreeMap::new();
    let mut adds = 0;
    let mut restarts = 0;

    macro_rules! fail {
        ($($t:tt)*) => {{
            if let Some(srv) = s.srv.take() { let _ = srv.shutdown(); }
            return Ok(Err(format!($($t)*)));
        }};
    }

    // invariant over what is currently published for document i
    let check_doc = |s: &Session, i: usize, user: &BTreeSet<String>, file: &BTreeMap<usize, BTreeSet<String>>| -> Result<(), String> {
        for d in s.diags[i].iter().filter(|d| is_spelling(d)) {
            let w = diag_text(&s.texts[i], d);
            if user.contains(&w) {
                return Err(format!("word {w:?} was added to the user dictionary but is reported as misspelt in document {i} ({})", s.langs[i]));
            }
            if file.get(&i).is_some_and(|f| f.contains(&w)) {
                return Err(format!("word {w:?} was added to the file dictionary of document {i} but is still reported there"));
            }
        }
        Ok(())
    };

    for (step, op) in c.ops.iter().enumerate() {
        match op {
            Op::AddUser { doc, sel } | Op::AddFile { doc, sel } => {
                let to_user = matches!(op, Op::AddUser { .. });
                let i = *doc as usize % n;
                let spelling: Vec<Diag> = s.diags[i].iter().filter(|d| is_spelling(d)).cloned().collect();
                if spelling.is_empty() {
                    continue;
                }
                let d = &spelling[pick_idx(*sel, spelling.len())];
                let word = diag_text(&s.texts[i], d);
                // exclude by construction the open finding: a case variant of an earlier word
                let lower = word.to_lowercase();
                let clash = user.iter().chain(file.values().flatten()).any(|w| w.to_lowercase() == lower && *w != word);
                if clash {
                    ctx.class("excluded_case_variant");
                    continue;
                }
                let before = s.diags[i].clone();
                let uri = s.uri(i);
                let cmd = if to_user { "HarperAddToUserDict" } else { "HarperAddToFileDict" };
                s.diags[i] = s.srv.as_mut().unwrap().execute_and_publish(cmd, json!([word, uri]), &uri)?;
                adds += 1;
                if to_user {
                    user.insert(word.clone());
                } else {
                    file.entry(i).or_default().insert(word.clone());
                }
                // the word is accepted; every other lint is unchanged
                let expect: Vec<Diag> = before
                    .iter()
                    .filter(|d| !(is_spelling(d) && diag_text(&s.texts[i], d) == word))
                    .cloned()
                    .collect();
                if keys_modulo_suggestions(&s.texts[i], &expect) != keys_modulo_suggestions(&s.texts[i], &s.diags[i]) {
                    fail!(
                        "step {step}: after {cmd}({word:?}) document {i} reports {:?}; expected the previous diagnostics minus the spelling lints on that word: {:?}",
                        keys(&s.diags[i]), keys(&expect)
                    );
                }
                // saved file reloads to exactly the words added so far
                if to_user {
                    let mut got = read_lines(&s.sb.user_dict());
                    got.remove("");
                    if got != user {
                        fail!("step {step}: user dictionary file holds {:?}, words added so far {:?}", got, user);
                    }
                } else {
                    let p = file_dict_file(&s.sb, &s.path(i));
                    let got = read_lines(&p);
                    if &got != file.get(&i).unwrap() {
                        fail!("step {step}: file dictionary {} holds {:?}, words added for this file {:?}", p.display(), got, file.get(&i));
                    }
                }
                // subsequently checked text of the other documents
                for j in 0..n {
                    if j == i {
                        continue;
                    }
                    let prev = s.diags[j].clone();
                    s.relint(j)?;
                    if let Err(e) = check_doc(&s, j, &user, &file) {
                        fail!("step {step}: {e}");
                    }
                    if !to_user {
                        // a file-dictionary word affects only its file
                        if keys(&prev) != keys(&s.diags[j]) {
                            fail!(
                                "step {step}: adding {word:?} to the file dictionary of document {i} changed the diagnostics of document {j}: {:?} -> {:?}",
                                keys(&prev), keys(&s.diags[j])
                            );
                        }
                    } else {
                        let expect: Vec<Diag> = prev
                            .iter()
                            .filter(|d| !(is_spelling(d) && diag_text(&s.texts[j], d) == word))
                            .cloned()
                            .collect();
                        if keys_modulo_suggestions(&s.texts[j], &expect) != keys_modulo_suggestions(&s.texts[j], &s.diags[j]) {
                            fail!(
                                "step {step}: after adding {word:?} to the user dictionary document {j} reports {:?}, expected {:?}",
                                keys(&s.diags[j]), keys(&expect)
                            );
                        }
                    }
                }
            }
            Op::Change { doc, words } => {
                let i = *doc as usize % n;
                s.texts[i] = doc_text(&s.langs[i], words);
                if std::fs::write(s.path(i), &s.texts[i]).is_err() {
                    fail!("cannot write document");
                }
                s.relint(i)?;
                if let Err(e) = check_doc(&s, i, &user, &file) {
                    fail!("step {step}: {e}");
                }
                // every vocabulary word that was not added is still flagged
                let flagged: BTreeSet<String> = s.diags[i].iter().filter(|d| is_spelling(d)).map(|d| diag_text(&s.texts[i], d)).collect();
                for w in words {
                    let w = vocab(*w).to_string();
                    // the word as written, or its lower-case form (the spell checker accepts the
                    // capitalised and upper-case forms of a lower-case entry)
                    let lw = w.to_lowercase();
                    let added = user.contains(&w) || user.contains(&lw) || file.get(&i).is_some_and(|f| f.contains(&w) || f.contains(&lw));
                    if !added && !flagged.iter().any(|f| w.contains(f.as_str()) || f.contains(w.as_str())) {
                        fail!("step {step}: non-word {w:?} is not reported in document {i} although it was never added (flagged: {:?})", flagged);
                    }
                }
            }
            Op::EditDictFile { kind, sel } => {
                let mut words: Vec<String> = user.iter().cloned().collect();
                match kind % 3 {
                    0 if !words.is_empty() => {
                        let i = pick_idx(*sel, words.len());
                        let mut c: Vec<char> = words[i].chars().collect();
                        if c[0].is_lowercase() {
                            c[0] = c[0].to_uppercase().next().unwrap_or(c[0]);
                        } else {
                            c[0] = c[0].to_lowercase().next().unwrap_or(c[0]);
                        }
                        let new: String = c.into_iter().collect();
                        if words.iter().any(|w| w.to_lowercase() == new.to_lowercase() && *w != words[i]) {
                            continue;
                        }
                        words[i] = new;
                    }
                    1 => {
                        let w = vocab((*sel % 251) as u8).to_string();
                        if words.iter().chain(file.values().flatten()).any(|x| x.to_lowercase() == w.to_lowercase()) {
                            continue;
                        }
                        words.push(w);
                    }
                    2 if !words.is_empty() => {
                        words.remove(pick_idx(*sel, words.len()));
                    }
                    _ => continue,
                }
                let mut content = words.join("\n");
                if kind % 3 != 1 && !content.is_empty() {
                    content.push('\n');
                }
                let _ = std::fs::create_dir_all(s.sb.user_dict().parent().unwrap());
                if std::fs::write(s.sb.user_dict(), content).is_err() {
                    fail!("cannot write dictionary file");
                }
                user = words.into_iter().collect();
                ctx.class("dictionary_file_edited_by_hand");
                // subsequently checked text ...
                for j in 0..n {
                    s.relint(j)?;
                    if let Err(e) = check_doc(&s, j, &user, &file) {
                        fail!("step {step} (after editing the dictionary file): {e}");
                    }
                }
                // ... agrees with what a restarted server reports
                let before: Vec<Vec<String>> = s.diags.iter().map(|d| keys(d)).collect();
                if let Some(srv) = s.srv.take() {
                    srv.shutdown()?;
                }
                s.start()?;
                for j in 0..n {
                    if keys(&s.diags[j]) != before[j] {
                        fail!(
                            "step {step}: after the dictionary file was edited to {:?} the running server reports {:?} for document {j}, a restarted server {:?}",
                            user, before[j], keys(&s.diags[j])
                        );
                    }
                }
            }
            Op::Restart => {
                let before: Vec<Vec<String>> = s.diags.iter().map(|d| keys(d)).collect();
                if let Some(srv) = s.srv.take() {
                    srv.shutdown()?;
                }
                s.start()?;
                restarts += 1;
                for i in 0..n {
                    if keys(&s.diags[i]) != before[i] {
                        fail!(
                            "step {step}: after a server restart document {i} reports {:?}, before the restart {:?} (user words {:?}, file words {:?})",
                            keys(&s.diags[i]), before[i], user, file.get(&i)
                        );
                    }
                    if let Err(e) = check_doc(&s, i, &user, &file) {
                        fail!("step {step} (after restart): {e}");
                    }
                }
                let mut got = read_lines(&s.sb.user_dict());
                got.remove("");
                if got != user {
                    fail!("step {step}: after restart the user dictionary file holds {:?}, added {:?}", got, user);
                }
            }
        }
    }
    if let Some(srv) = s.srv.take() {
        srv.shutdown()?;
    }
    ctx.class_if(adds >= 2, "two_or_more_adds");
    ctx.class_if(restarts >= 1, "restarted");
    ctx.class_if(n >= 2, "several_documents");
    ctx.class_if(user.iter().chain(file.values().flatten()).any(|w| !w.is_ascii()), "non_ascii_word_added");
    ctx.class_if(!file.is_empty(), "file_dictionary_used");
    if adds >= 2 && (restarts >= 1 || n >= 2) {
        ctx.nontrivial(c);
    }
    Ok(Ok(()))
}

fn history_strategy(max_ops: usize) -> BoxedStrategy<DictCase> {
    (history_strategy_inner(max_ops), 0u8..PRESEEDS.len() as u8)
        .prop_map(|(mut c, p)| {
            c.preseed = p;
            c
        })
        .boxed()
}

fn history_strategy_inner(max_ops: usize) -> BoxedStrategy<DictCase> {
    let lang = prop_oneof![3 => Just("plaintext".to_string()), 3 => Just("markdown".to_string()), 1 => Just("rust".to_string()), 1 => Just("python".to_string())];
    let words = || proptest::collection::vec(0u8..VOCAB.len() as u8, 2..6);
    (
        proptest::collection::vec((lang, words()), 1..4),
        proptest::collection::vec(
            prop_oneof![
                4 => (0u8..3, any::<u16>()).prop_map(|(doc, sel)| Op::AddUser { doc, sel }),
                3 => (0u8..3, any::<u16>()).prop_map(|(doc, sel)| Op::AddFile { doc, sel }),
                2 => (0u8..3, words()).prop_map(|(doc, words)| Op::Change { doc, words }),
                1 => Just(Op::Restart),
                2 => (0u8..3, any::<u16>()).prop_map(|(kind, sel)| Op::EditDictFile { kind, sel }),
            ],
            1..max_ops,
        ),
    )
        .prop_map(|(docs, ops)| DictCase { docs, ops, preseed: 0 })
        .boxed()
}

// ------------------------------------------------------------------------------------------------
// the JS import call: histories on the wasm-facing Linter

/// Words an integration may import: the vocabulary above plus words the curated dictionary has
/// (importing a known word must be harmless and the word must still come back from the export).
const JS_EXTRA: &[&str] = &["hello", "Paris", "the", "KUBERNETES", "javascript", "o'clockish", "taller", "apples", "bananas", "oranges", "banana"];

fn js_word(i: u8) -> &'static str {
    let i = i as usize % (VOCAB.len() + JS_EXTRA.len());
    if i < VOCAB.len() { VOCAB[i] } else { JS_EXTRA[i - VOCAB.len()] }
}

#[derive(Debug, Clone, Serialize, Deserialize, PartialEq, Eq, Hash)]
pub enum JsOp {
    Import(Vec<u8>),
    /// lint a text that mentions these words (and a plain error that must stay reported)
    Lint(Vec<u8>, bool),
    /// what an integration does between sessions: export, construct a new Linter, import
    Persist,
}

#[derive(Debug, Clone, Serialize, Deserialize, PartialEq, Eq, Hash)]
pub struct JsCase {
    pub ops: Vec<JsOp>,
    pub dialect: u8,
}

fn js_dialect(d: u8) -> harper_wasm::Dialect {
    match d % 4 {
        0 => harper_wasm::Dialect::American,
        1 => harper_wasm::Dialect::British,
        2 => harper_wasm::Dialect::Australian,
        _ => harper_wasm::Dialect::Canadian,
    }
}

pub fn test_js_history(c: &JsCase, ctx: &mut CaseCtx) -> Result<(), String> {
    use harper_wasm::{Language, Linter};
    let mut linter = Linter::new(js_dialect(c.dialect));
    let mut model: BTreeSet<String> = BTreeSet::new();
    let (mut imports, mut persisted_after_import, mut lint_after_import) = (0, false, false);
    // (span start, span end, kind, message) of everything that is not a spelling lint, and the
    // spans of spelling lints; with the words flagged
    let summarise = |lints: &[harper_wasm::Lint]| -> (Vec<String>, Vec<(usize, usize, String)>) {
        let mut other = vec![];
        let mut spelling = vec![];
        for l in lints {
            let sp = l.span();
            if l.lint_kind() == "Spelling" {
                spelling.push((sp.start, sp.end, l.get_problem_text()));
            } else {
                other.push(format!("{}..{} {} {}", sp.start, sp.end, l.lint_kind(), l.message()));
            }
        }
        (other, spelling)
    };
    for (step, op) in c.ops.iter().enumerate() {
        match op {
            JsOp::Import(ws) => {
                let words: Vec<String> = ws.iter().map(|w| js_word(*w).to_string()).collect();
                linter.import_words(words.clone());
                model.extend(words);
                imports += 1;
            }
            JsOp::Persist => {
                let exported = linter.export_words();
                linter = Linter::new(js_dialect(c.dialect));
                linter.import_words(exported);
                if imports > 0 {
                    persisted_after_import = true;
                }
            }
            JsOp::Lint(ws, markdown) => {
                let mut text = String::from("We like");
                for w in ws {
                    text.push(' ');
                    text.push_str(js_word(*w));
                    text.push_str(" and");
                }
                text.push_str(" an banana here.");
                // rules that look at the part of speech of curated words an integration may import
                text.push_str(" She is taller then him. I like apples, bananas and oranges.");
                let language = if *markdown { Language::Markdown } else { Language::Plain };
                let got = linter.lint(text.clone(), language);
                let (other, spelling) = summarise(&got);
                for (a, b, w) in &spelling {
                    if model.contains(w) {
                        return Err(format!(
                            "step {step}: {w:?} was imported (imported so far: {model:?}) and is still reported as misspelt at {a}..{b} of {text:?}"
                        ));
                    }
                }
                // all other lints: what a linter that never imported anything reports, minus
                // the spelling lints on imported words
                let base = Linter::new(js_dialect(c.dialect)).lint(text.clone(), language);
                let (base_other, base_spelling) = summarise(&base);
                let expect: Vec<_> = base_spelling.into_iter().filter(|(_, _, w)| !model.contains(w)).collect();
                if other != base_other || spelling != expect {
                    return Err(format!(
                        "step {step}: with {model:?} imported, linting {text:?} gives {other:?} + spelling {spelling:?}; a linter without imported words gives {base_other:?} + spelling {expect:?} (after removing imported words)"
                    ));
                }
                if imports > 0 {
                    lint_after_import = true;
                }
            }
        }
        let exported: BTreeSet<String> = linter.export_words().into_iter().collect();
        if exported != model {
            return Err(format!(
                "step {step} ({op:?}): export_words returns {exported:?}, the words imported so far are {model:?}"
            ));
        }
    }
    if lint_after_import {
        ctx.class("lint_after_import");
    }
    if persisted_after_import {
        ctx.class("export_new_linter_import");
    }
    if model.iter().any(|w| JS_EXTRA.contains(&w.as_str()) || ["github", "linux", "monday", "iphone"].contains(&w.as_str())) {
        ctx.class("imports_relative_of_curated_word");
    }
    if lint_after_import && imports > 1 {
        ctx.nontrivial(c);
    }
    Ok(())
}

pub fn js_strategy() -> BoxedStrategy<JsCase> {
    let n = (VOCAB.len() + JS_EXTRA.len()) as u8;
    let words = move || proptest::collection::vec(0u8..n, 1..5);
    (
        proptest::collection::vec(
            prop_oneof![
                3 => words().prop_map(JsOp::Import),
                4 => (words(), any::<bool>()).prop_map(|(w, m)| JsOp::Lint(w, m)),
                1 => Just(JsOp::Persist),
            ],
            1..14,
        ),
        0u8..4,
    )
        .prop_map(|(ops, dialect)| JsCase { ops, dialect })
        .boxed()
}

// ------------------------------------------------------------------------------------------------
// the command-line tool reads the dictionaries the language server wrote

#[derive(Debug, Clone, Serialize, Deserialize, PartialEq, Eq, Hash)]
pub struct CliDictCase {
    /// 0 plain path, 1 the document's directory is reached through a symbolic link, 2 the
    /// document itself is a symbolic link
    pub path_kind: u8,
    pub name: u8,
}

pub fn test_cli_dicts(c: &CliDictCase, ctx: &mut CaseCtx) -> Result<(), String> {
    let r = (|| -> Result<Result<(), String>, LspError> {
        let io = |e: std::io::Error| LspError::Protocol(e.to_string());
        let sb = Sandbox::new("c07cli");
        let real_dir = sb.ws_file("real");
        std::fs::create_dir_all(&real_dir).map_err(io)?;
        let fname = doc_name(c.name as usize, "md");
        // `Plughish` goes to the file dictionary first; the lower-case spelling is then still
        // unknown and goes to the user dictionary: two dictionaries hold one word in two spellings
        let text = "We like frobnix and qwertzu and wibblet here. Plughish is a name, and plughish is a verb.\n";
        std::fs::write(real_dir.join(&fname), text).map_err(io)?;
        // the path as the user opens it, in the editor and on the command line
        let opened = match c.path_kind % 3 {
            0 => real_dir.join(&fname),
            1 => {
                std::os::unix::fs::symlink(&real_dir, sb.ws_file("link")).map_err(io)?;
                sb.ws_file("link").join(&fname)
            }
            _ => {
                let l = sb.ws_file(&format!("shortcut-{fname}"));
                std::os::unix::fs::symlink(real_dir.join(&fname), &l).map_err(io)?;
                l
            }
        };
        ctx.class(["plain_path", "directory_is_a_symbolic_link", "document_is_a_symbolic_link"][c.path_kind as usize % 3]);
        ctx.nontrivial(c);
        let uri = file_uri(&opened);
        let mut srv = Server::start(&sb, sb.settings(json!({})), None)?;
        srv.open(&uri, "markdown", text)?;
        srv.execute_and_publish("HarperAddToUserDict", json!(["frobnix", uri]), &uri)?;
        srv.execute_and_publish("HarperAddToFileDict", json!(["qwertzu", uri]), &uri)?;
        let d = srv.execute_and_publish("HarperAddToFileDict", json!(["Plughish", uri]), &uri)?;
        let flagged: Vec<String> = d.iter().filter(|d| is_spelling(d)).map(|d| diag_text(text, d)).collect();
        if flagged != ["wibblet", "plughish"] {
            return Ok(Err(format!("language server: after adding frobnix (user), qwertzu and Plughish (file) the spelling diagnostics are on {flagged:?}, expected wibblet and the lower-case plughish")));
        }
        let d = srv.execute_and_publish("HarperAddToUserDict", json!(["plughish", uri]), &uri)?;
        srv.shutdown()?;
        let flagged: Vec<String> = d.iter().filter(|d| is_spelling(d)).map(|d| diag_text(text, d)).collect();
        if flagged != ["wibblet"] {
            return Ok(Err(format!("language server: after adding frobnix, plughish (user) and qwertzu, Plughish (file) the spelling diagnostics are on {flagged:?}, expected only wibblet")));
        }
        let cli = std::env::var("HV_CLI_BIN").unwrap_or_else(|_| "/verif/target/ls/release/harper-cli".into());
        let out = std::process::Command::new(&cli)
            .arg("lint")
            .arg(&opened)
            .args(["--only-lint-with", "SpellCheck"])
            .arg("--user-dict-path")
            .arg(sb.user_dict())
            .arg("--file-dict-path")
            .arg(sb.file_dict_dir())
            .env("HOME", sb.root.join("home"))
            .env("XDG_CONFIG_HOME", sb.root.join("config"))
            .env("XDG_DATA_HOME", sb.root.join("data"))
            .stdin(std::process::Stdio::null())
            .output()
            .map_err(|e| LspError::Protocol(format!("cannot run {cli}: {e}")))?;
        let printed = format!("{}{}", String::from_utf8_lossy(&out.stdout), String::from_utf8_lossy(&out.stderr));
        // drop the colour escapes
        let printed = {
            let mut o = String::new();
            let mut it = printed.chars();
            while let Some(ch) = it.next() {
                if ch == '\u{1b}' {
                    for d in it.by_ref() {
                        if d.is_ascii_alphabetic() {
                            break;
                        }
                    }
                } else {
                    o.push(ch);
                }
            }
            o
        };
        // every spelling lint is printed as one label whose message starts with "Did you mean";
        // the only unknown word left in the text is the control word
        let labels = printed.matches("Did you mean").count();
        if !printed.contains("“wibblet”") {
            return Ok(Err(format!("control failed: harper-cli does not report wibblet: {}", crate::core::truncate(&printed, 300))));
        }
        if labels != 1 {
            return Ok(Err(format!(
                "frobnix, plughish (user dictionary) and qwertzu, Plughish (file dictionary) were added through the language server for {}, but `harper-cli lint` on the same path reports {labels} spelling problems instead of the one on wibblet: {}",
                opened.display(),
                printed.lines().filter(|l| l.contains("Did you mean") || l.contains("No such file")).map(|l| l.trim().trim_start_matches(['│', '╰', '─', ' ']).to_string()).collect::<Vec<_>>().join(" | ")
            )));
        }
        Ok(Ok(()))
    })();
    match r {
        Ok(r) => r,
        Err(e) => {
            ctx.infra(e);
            Ok(())
        }
    }
}

// ------------------------------------------------------------------------------------------------
// large dictionaries of non-ASCII words; dictionaries that are symbolic links

#[derive(Debug, Clone, Serialize, Deserialize, PartialEq, Eq, Hash)]
pub struct LargeDictCase {
    pub words: usize,
    /// length of a padding word in front (shifts every later word against I/O block boundaries)
    pub shift: u8,
    /// the configured dictionary path is a relative symbolic link to a file elsewhere
    pub symlink: bool,
    pub crlf: bool,
}

/// Latin letters of 2 and 3 bytes (words in other scripts are not spell-checked at all)
const ALPHABETS: &[&str] = &["àáâãäåçèéêëìíîïñòóôõöùúûüýÿ", "ḁḃḅḇḉḋḍḏḑḓḕḗḙḛ", "āăąćĉċčďđēĕėęěĝğġģ", "ẁẃẅẇẉẋẍẏẑẓẕạảấầẩẫậ"];

fn big_word(i: usize) -> String {
    // distinct lower-case words of 2- and 3-byte letters: the index is spelt in the alphabet
    let alpha: Vec<char> = ALPHABETS[i % ALPHABETS.len()].chars().collect();
    let mut n = i / ALPHABETS.len() + alpha.len() * alpha.len();
    let mut w = String::new();
    while n > 0 {
        w.push(alpha[n % alpha.len()]);
        n /= alpha.len();
    }
    for k in 0..(i % 5) {
        w.push(alpha[(i + k) % alpha.len()]);
    }
    w
}

pub fn test_large_dict(c: &LargeDictCase, ctx: &mut CaseCtx) -> Result<(), String> {
    let r = (|| -> Result<Result<(), String>, LspError> {
        let io = |e: std::io::Error| LspError::Protocol(e.to_string());
        let sb = Sandbox::new("c07big");
        let link = sb.user_dict();
        std::fs::create_dir_all(link.parent().unwrap()).map_err(io)?;
        let real = if c.symlink { sb.root.join("dotfiles/harper/dictionary.txt") } else { link.clone() };
        std::fs::create_dir_all(real.parent().unwrap()).map_err(io)?;
        let mut words: Vec<String> = vec![];
        if c.shift > 0 {
            words.push(format!("z{}", "q".repeat(c.shift as usize)));
        }
        words.extend((0..c.words).map(big_word));
        let eol = if c.crlf { "\r\n" } else { "\n" };
        let content: String = words.iter().map(|w| format!("{w}{eol}")).collect();
        std::fs::write(&real, &content).map_err(io)?;
        if c.symlink {
            // relative to the directory of the link, as a dotfiles manager creates it
            std::os::unix::fs::symlink("../dotfiles/harper/dictionary.txt", &link).map_err(io)?;
        }
        let mut text = String::new();
        for chunk in words.chunks(8) {
            text.push_str("We like ");
            text.push_str(&chunk.join(" and "));
            text.push_str(".\n");
        }
        text.push_str("We like frobnix and ùúûüýÿḁḃ here.\n");
        let doc = sb.ws_file("big.txt");
        std::fs::write(&doc, &text).map_err(io)?;
        let uri = sb.uri("big.txt");
        let set: BTreeSet<&str> = words.iter().map(|w| w.as_str()).collect();
        let reported = |diags: &[Diag]| -> Vec<String> {
            diags.iter().filter(|d| is_spelling(d)).map(|d| diag_text(&text, d)).filter(|w| set.contains(w.as_str())).collect()
        };
        let describe = |w: &str| -> String {
            let at = content.find(w).unwrap_or(0);
            format!("{w:?} (bytes {at}..{} of the {}-byte dictionary file)", at + w.len(), content.len())
        };
        ctx.class_if(content.len() > 8192, "dictionary_file_over_8KiB");
        ctx.class_if(c.symlink, "dictionary_is_a_symbolic_link");
        ctx.class_if(c.crlf, "crlf_dictionary_file");
        ctx.nontrivial(c);

        let mut srv = Server::start(&sb, sb.settings(json!({})), None)?;
        let d = srv.open(&uri, "plaintext", &text)?;
        if !d.iter().any(|d| is_spelling(d) && diag_text(&text, d) == "frobnix") {
            let _ = srv.shutdown();
            return Ok(Err("control failed: the unknown word frobnix is not reported".into()));
        }
        if !d.iter().any(|d| is_spelling(d) && diag_text(&text, d) == "ùúûüýÿḁḃ") {
            let _ = srv.shutdown();
            return Ok(Err("control failed: an unknown word of accented Latin letters is not reported (are such words checked at all?)".into()));
        }
        if let Some(w) = reported(&d).first() {
            let _ = srv.shutdown();
            return Ok(Err(format!("the dictionary file lists {} but the word is reported ({} dictionary words reported in all)", describe(w), reported(&d).len())));
        }
        let d = srv.execute_and_publish("HarperAddToUserDict", json!(["frobnix", uri]), &uri)?;
        if let Some(w) = reported(&d).first() {
            let _ = srv.shutdown();
            return Ok(Err(format!("after adding another word, dictionary word {} is reported", describe(w))));
        }
        srv.shutdown()?;
        let mut want: BTreeSet<String> = words.iter().cloned().collect();
        want.insert("frobnix".into());
        let got = read_lines(&real);
        if got != want {
            let lost: Vec<&String> = want.iter().filter(|w| !got.contains(*w)).take(3).collect();
            let odd: Vec<&String> = got.iter().filter(|w| !want.contains(*w)).take(3).collect();
            return Ok(Err(format!(
                "after adding one word to a dictionary of {} words the file holds {} lines; missing {:?}, unexpected {:?}",
                words.len(), got.len(), lost, odd
            )));
        }
        if c.symlink {
            let still_link = std::fs::symlink_metadata(&link).map(|m| m.file_type().is_symlink()).unwrap_or(false);
            if !still_link {
                return Ok(Err("the configured dictionary was a symbolic link; after a save it is a regular file and the file it pointed to is no longer the dictionary".into()));
            }
        }
        // a new process reads the saved file
        let mut srv = Server::start(&sb, sb.settings(json!({})), None)?;
        let d = srv.open(&uri, "plaintext", &text)?;
        let bad = reported(&d);
        let frob = d.iter().any(|d| is_spelling(d) && diag_text(&text, d) == "frobnix");
        srv.shutdown()?;
        if let Some(w) = bad.first() {
            return Ok(Err(format!("after a restart dictionary word {} is reported ({} in all)", describe(w), bad.len())));
        }
        if frob {
            return Ok(Err("after a restart the added word frobnix is reported again".into()));
        }
        Ok(Ok(()))
    })();
    match r {
        Ok(r) => r,
        Err(e) => {
            ctx.infra(e);
            Ok(())
        }
    }
}

// ------------------------------------------------------------------------------------------------
// finding sub-run: a case variant of an earlier word replaces the entry

fn case_variant_subrun(run: &mut Run) {
    if run.strict || run.known.get(KF_CASE).is_none() {
        return;
    }
    let r = (|| -> Result<bool, LspError> {
        let sb = Sandbox::new("c07kf");
        let settings = sb.settings(json!({}));
        let mut srv = Server::start(&sb, settings, None)?;
        let text = "We like snarfle and Snarfle here.\n";
        let p = sb.ws_file("kf.txt");
        std::fs::write(&p, text).map_err(|e| LspError::Protocol(e.to_string()))?;
        let uri = sb.uri("kf.txt");
        srv.open(&uri, "plaintext", text)?;
        srv.execute_and_publish("HarperAddToUserDict", json!(["snarfle", uri]), &uri)?;
        let d = srv.execute_and_publish("HarperAddToUserDict", json!(["Snarfle", uri]), &uri)?;
        let flagged: Vec<String> = d.iter().filter(|d| is_spelling(d)).map(|d| diag_text(text, d)).collect();
        srv.shutdown()?;
        Ok(flagged.iter().any(|w| w == "snarfle"))
    })();
    match r {
        Ok(true) => run.note_known(KF_CASE),
        Ok(false) => {}
        Err(e) => run.infra_problems.push(format!("case-variant sub-run: {e}")),
    }
}

// ------------------------------------------------------------------------------------------------
// crash points: every state a process death can leave while the dictionary is being saved

#[derive(Debug, Clone, Serialize, Deserialize, PartialEq, Eq, Hash)]
pub struct CrashCase {
    /// number of words already in the dictionary
    pub pre_words: usize,
    pub new_word: String,
    /// user dictionary (true) or file dictionary (false)
    pub user: bool,
}

#[derive(Debug, Clone)]
enum Mut {
    Mkdir(String),
    Open { path: String, trunc: bool, creat: bool, append: bool, fd: i64 },
    Write { path: String, data: Vec<u8>, offset: Option<u64> },
    Rename(String, String),
    Unlink(String),
    Truncate(String, u64),
}

fn flags_has(args: &str, f: &str) -> bool {
    args.split(|c: char| !(c.is_ascii_alphanumeric() || c == '_')).any(|t| t == f)
}

fn resolve(p: &str, cwd: &Path) -> String {
    if p.starts_with('/') {
        p.to_string()
    } else {
        cwd.join(p).to_string_lossy().to_string()
    }
}

/// Extract, in global order, the mutations that touch `dir`.
fn mutations(trace: &[Sys], dir: &str, cwd: &Path) -> Vec<Mut> {
    let mut out = vec![];
    for s in trace {
        if s.failed() {
            continue;
        }
        let strs = s.string_args();
        match s.name.as_str() {
            "openat" | "open" | "creat" => {
                let Some(p) = strs.first() else { continue };
                let p = resolve(p, cwd);
                if !p.starts_with(dir) {
                    continue;
                }
                let write = flags_has(&s.args, "O_WRONLY") || flags_has(&s.args, "O_RDWR") || s.name == "creat";
                if !write {
                    continue;
                }
                out.push(Mut::Open {
                    path: p,
                    trunc: flags_has(&s.args, "O_TRUNC") || s.name == "creat",
                    creat: flags_has(&s.args, "O_CREAT") || s.name == "creat",
                    append: flags_has(&s.args, "O_APPEND"),
                    fd: s.ret_int().unwrap_or(-1),
                });
            }
            "write" | "pwrite64" => {
                let Some((_, p)) = s.fd_paths().into_iter().next() else { continue };
                if !p.starts_with(dir) {
                    continue;
                }
                let n = s.ret_int().unwrap_or(0).max(0) as usize;
                let mut data = s.strings().into_iter().next().unwrap_or_default();
                data.truncate(n);
                let offset = if s.name == "pwrite64" {
                    s.args.rsplit(',').next().and_then(|x| x.trim().parse().ok())
                } else {
                    None
                };
                out.push(Mut::Write { path: p, data, offset });
            }
            "writev" => {
                let Some((_, p)) = s.fd_paths().into_iter().next() else { continue };
                if !p.starts_with(dir) {
                    continue;
                }
                let n = s.ret_int().unwrap_or(0).max(0) as usize;
                let mut data: Vec<u8> = s.strings().into_iter().flatten().collect();
                data.truncate(n);
                out.push(Mut::Write { path: p, data, offset: None });
            }
            "rename" | "renameat" | "renameat2" => {
                if strs.len() >= 2 {
                    let (a, b) = (resolve(&strs[0], cwd), resolve(&strs[1], cwd));
                    if a.starts_with(dir) || b.starts_with(dir) {
                        out.push(Mut::Rename(a, b));
                    }
                }
            }
            "unlink" | "unlinkat" => {
                if let Some(p) = strs.first() {
                    let p = resolve(p, cwd);
                    if p.starts_with(dir) {
                        out.push(Mut::Unlink(p));
                    }
                }
            }
            "mkdir" | "mkdirat" => {
                if let Some(p) = strs.first() {
                    let p = resolve(p, cwd);
                    if p.starts_with(dir) || dir.starts_with(&p) {
                        out.push(Mut::Mkdir(p));
                    }
                }
            }
            "ftruncate" | "truncate" => {
                let path = s.fd_paths().into_iter().next().map(|x| x.1).or(strs.first().map(|p| resolve(p, cwd)));
                if let Some(p) = path {
                    if p.starts_with(dir) {
                        let len = s.args.rsplit(',').next().and_then(|x| x.trim().parse().ok()).unwrap_or(0);
                        out.push(Mut::Truncate(p, len));
                    }
                }
            }
            _ => {}
        }
    }
    out
}

/// tiny file-system model: apply the first `k` mutations, the k-th write only with `partial` bytes
fn replay_prefix(initial: &BTreeMap<String, Vec<u8>>, muts: &[Mut], k: usize, partial: Option<usize>) -> BTreeMap<String, Vec<u8>> {
    let mut fs = initial.clone();
    let mut pos: BTreeMap<String, u64> = BTreeMap::new();
    for (i, m) in muts.iter().take(k).enumerate() {
        let last = i + 1 == k;
        match m {
            Mut::Mkdir(_) => {}
            Mut::Open { path, trunc, creat, append, .. } => {
                if *creat && !fs.contains_key(path) {
                    fs.insert(path.clone(), vec![]);
                }
                if *trunc {
                    fs.insert(path.clone(), vec![]);
                }
                let p = if *append { fs.get(path).map(|f| f.len() as u64).unwrap_or(0) } else { 0 };
                pos.insert(path.clone(), p);
            }
            Mut::Write { path, data, offset } => {
                let data = match (last, partial) {
                    (true, Some(n)) => &data[..n.min(data.len())],
                    _ => &data[..],
                };
                let f = fs.entry(path.clone()).or_default();
                let at = offset.unwrap_or_else(|| *pos.get(path).unwrap_or(&(f.len() as u64))) as usize;
                if f.len() < at + data.len() {
                    f.resize(at + data.len(), 0);
                }
                f[at..at + data.len()].copy_from_slice(data);
                pos.insert(path.clone(), (at + data.len()) as u64);
            }
            Mut::Rename(a, b) => {
                if let Some(f) = fs.remove(a) {
                    fs.insert(b.clone(), f);
                }
            }
            Mut::Unlink(a) => {
                fs.remove(a);
            }
            Mut::Truncate(p, len) => {
                if let Some(f) = fs.get_mut(p) {
                    f.resize(*len as usize, 0);
                }
            }
        }
    }
    fs
}

fn lines_of(bytes: Option<&Vec<u8>>) -> BTreeSet<String> {
    match bytes {
        None => BTreeSet::new(),
        Some(b) => String::from_utf8_lossy(b).lines().map(|l| l.to_string()).collect(),
    }
}

fn pre_word(i: usize) -> String {
    // distinct non-words of varying length
    format!("preword{}x{}", i, "q".repeat(i % 7))
}

pub fn test_crash(c: &CrashCase, ctx: &mut CaseCtx) -> Result<(), String> {
    match crash_points(c, ctx) {
        Ok(r) => r,
        Err(e) => {
            ctx.infra(e);
            Ok(())
        }
    }
}

fn crash_points(c: &CrashCase, ctx: &mut CaseCtx) -> Result<Result<(), String>, LspError> {
    let sb = Sandbox::new("c07crash");
    let doc = sb.ws_file("crash.txt");
    let uri = sb.uri("crash.txt");
    let dict_path = if c.user { sb.user_dict() } else { file_dict_file(&sb, &doc) };
    let dict_dir = dict_path.parent().unwrap().to_string_lossy().to_string();
    let pre: BTreeSet<String> = (0..c.pre_words).map(pre_word).collect();
    let _ = std::fs::create_dir_all(&dict_dir);
    let initial_bytes: Vec<u8> = pre.iter().map(|w| format!("{w}\n")).collect::<String>().into_bytes();
    if c.pre_words > 0 {
        std::fs::write(&dict_path, &initial_bytes).map_err(|e| LspError::Protocol(e.to_string()))?;
    }
    let text = format!("We like {} here.\n", c.new_word);
    std::fs::write(&doc, &text).map_err(|e| LspError::Protocol(e.to_string()))?;

    // 1. record the save under strace
    let trace_file = sb.root.join("trace.txt");
    let wrapper = strace_wrapper(
        &trace_file,
        "openat,open,creat,write,writev,pwrite64,ftruncate,truncate,rename,renameat,renameat2,unlink,unlinkat,mkdir,mkdirat",
    );
    let settings = sb.settings(json!({}));
    let mut srv = Server::start(&sb, settings, Some(wrapper))?;
    srv.open(&uri, "plaintext", &text)?;
    let cmd = if c.user { "HarperAddToUserDict" } else { "HarperAddToFileDict" };
    srv.execute_and_publish(cmd, json!([c.new_word, uri]), &uri)?;
    srv.shutdown()?;
    let trace_text = std::fs::read_to_string(&trace_file).unwrap_or_default();
    let trace = parse_trace(&trace_text);
    let muts = mutations(&trace, &dict_dir, &sb.root.join("ws"));
    let mut post = pre.clone();
    post.insert(c.new_word.clone());
    let final_on_disk = read_lines(&dict_path);
    if final_on_disk != post {
        return Ok(Err(format!(
            "after {cmd}({:?}) the dictionary file holds {} words, expected the {} previous words plus the new one",
            c.new_word, final_on_disk.len(), pre.len()
        )));
    }
    if muts.is_empty() {
        return Err(LspError::Protocol("strace recorded no mutation of the dictionary directory".into()));
    }
    // 2. the replay model must reproduce the final state (validates trace parsing)
    let mut initial: BTreeMap<String, Vec<u8>> = BTreeMap::new();
    if c.pre_words > 0 {
        initial.insert(dict_path.to_string_lossy().to_string(), initial_bytes.clone());
    }
    let key = dict_path.to_string_lossy().to_string();
    let end = replay_prefix(&initial, &muts, muts.len(), None);
    if lines_of(end.get(&key)) != post {
        return Err(LspError::Protocol(format!(
            "trace replay does not reproduce the final dictionary ({} mutations)",
            muts.len()
        )));
    }
    // 3. every prefix, and every short write
    let mut states = 0usize;
    let mut writes = 0usize;
    let mut judge = |fs: &BTreeMap<String, Vec<u8>>, what: String| -> Result<(), String> {
        let got = lines_of(fs.get(&key));
        if got == pre || got == post {
            Ok(())
        } else {
            let lost: Vec<&String> = pre.iter().filter(|w| !got.contains(*w)).collect();
            let invented: Vec<&String> = got.iter().filter(|w| !post.contains(*w)).collect();
            Err(format!(
                "if the process dies {what}, the dictionary reloads to {} words: {} of the {} previously added words are lost{} (save = {} mutations: {})",
                got.len(),
                lost.len(),
                pre.len(),
                if invented.is_empty() { String::new() } else { format!(", and it contains {:?} which was never added", invented.iter().take(2).collect::<Vec<_>>()) },
                muts.len(),
                muts.iter().map(|m| match m { Mut::Mkdir(_) => "mkdir", Mut::Open { trunc: true, .. } => "open(O_TRUNC)", Mut::Open { .. } => "open", Mut::Write { .. } => "write", Mut::Rename(..) => "rename", Mut::Unlink(_) => "unlink", Mut::Truncate(..) => "truncate" }).collect::<Vec<_>>().join(", ")
            ))
        }
    };
    for k in 0..=muts.len() {
        let fs = replay_prefix(&initial, &muts, k, None);
        states += 1;
        if let Err(e) = judge(&fs, format!("after mutation {k} of {}", muts.len())) {
            return Ok(Err(e));
        }
        if k > 0 {
            if let Mut::Write { data, .. } = &muts[k - 1] {
                writes += 1;
                let cuts: Vec<usize> = if data.len() <= 64 {
                    (1..data.len()).collect()
                } else {
                    let mut v: Vec<usize> = (1..16).collect();
                    v.extend((1..32).map(|i| i * data.len() / 32));
                    v.push(data.len() - 1);
                    v
                };
                for n in cuts {
                    let fs = replay_prefix(&initial, &muts, k, Some(n));
                    states += 1;
                    if let Err(e) = judge(&fs, format!("during write #{k} after {n} of {} bytes", data.len())) {
                        return Ok(Err(e));
                    }
                }
            }
        }
    }
    ctx.class(format!("states:{}", if states > 50 { ">50" } else { "<=50" }));
    ctx.class_if(writes >= 2, "multi_write_save");
    ctx.class_if(c.pre_words >= 2, "pre_state>=2_words");
    ctx.class_if(!c.user, "file_dictionary");
    for _ in 0..states {
        ctx.class("crash_state");
    }
    if c.pre_words >= 2 {
        ctx.nontrivial(c);
    }
    Ok(Ok(()))
}

/// A write that fails part-way (file-size limit): the save must fail as a whole — the dictionary
/// on disk still holds every previously added word.
pub fn test_write_failure(c: &CrashCase, ctx: &mut CaseCtx) -> Result<(), String> {
    let r = (|| -> Result<Result<(), String>, LspError> {
        let sb = Sandbox::new("c07efbig");
        let doc = sb.ws_file("fault.txt");
        let uri = sb.uri("fault.txt");
        let dict_path = if c.user { sb.user_dict() } else { file_dict_file(&sb, &doc) };
        let _ = std::fs::create_dir_all(dict_path.parent().unwrap());
        let pre: BTreeSet<String> = (0..c.pre_words).map(pre_word).collect();
        let bytes: String = pre.iter().map(|w| format!("{w}\n")).collect();
        std::fs::write(&dict_path, &bytes).map_err(|e| LspError::Protocol(e.to_string()))?;
        let text = format!("We like {} here.\n", c.new_word);
        std::fs::write(&doc, &text).map_err(|e| LspError::Protocol(e.to_string()))?;
        // the limit lies inside the dictionary file: the rewrite fails after `limit` bytes
        let limit = (bytes.len() as u64 / 2).max(64);
        let mut srv = Server::start_full(&sb, sb.settings(json!({})), None, false, Some(limit))?;
        srv.open(&uri, "plaintext", &text)?;
        let cmd = if c.user { "HarperAddToUserDict" } else { "HarperAddToFileDict" };
        let id = srv.request("workspace/executeCommand", json!({"command": cmd, "arguments": [c.new_word, uri]}))?;
        srv.wait_response(id, std::time::Duration::from_secs(60))?;
        srv.settle(std::time::Duration::from_millis(200))?;
        let _ = srv.shutdown();
        let got = read_lines(&dict_path);
        let mut post = pre.clone();
        post.insert(c.new_word.clone());
        ctx.class("write_failed_part_way");
        ctx.class(if got == pre { "save_failed_dictionary_unchanged" } else if got == post { "save_succeeded_despite_limit" } else { "dictionary_damaged" });
        ctx.nontrivial(c);
        if got != pre && got != post {
            let lost = pre.iter().filter(|w| !got.contains(*w)).count();
            return Ok(Err(format!(
                "the dictionary rewrite failed after {limit} of {} bytes (file size limit), yet the dictionary on disk now holds {} words: {lost} of the {} previously added words are lost",
                bytes.len(), got.len(), pre.len()
            )));
        }
        Ok(Ok(()))
    })();
    match r {
        Ok(r) => r,
        Err(e) => {
            ctx.infra(e);
            Ok(())
        }
    }
}

pub fn run(run: &mut Run) {
    run.level = "fault_enumeration".into();
    run.rule = "(a) LSP histories on the real harper-ls (sandboxed HOME/XDG, buffer = disk): 1-3 documents (plain, Markdown, Rust, Python) mentioning non-words from an 18-word vocabulary (ASCII, non-ASCII Latin, straight and curly apostrophes); ops AddToUserDict / AddToFileDict (word = text under a published spelling diagnostic, as a code action sends it), Change, Restart; after every step: added words are no longer reported in any subsequently checked text they apply to, all other diagnostics unchanged, a file-dictionary word does not leak to other files, the dictionary file (lines as a set) equals the model, a restart reproduces the diagnostics. (c) crash points: the save is recorded under strace; every prefix of the globally ordered file mutations, and every short write, is replayed in a file-system model (checked to reproduce the real final state) and must reload to the previous words or the previous words plus the new one. (b) js_import_histories: histories of import_words / lint / persist (export_words, new Linter, import_words) on the wasm-facing Linter with the same vocabulary plus curated words and their re-capitalisations; after every step export_words equals the set imported so far, no imported word is reported as misspelt, and every other lint equals what a linter without imported words reports. (e) large_dictionaries: pre-existing user dictionaries of 2-1800 words spelt in 2- and 3-byte Latin letters (a padding word shifts them against block boundaries), LF or CRLF, as a regular file or as a relative symbolic link: no listed word is reported after load, after another add and after a restart; the file holds exactly the old words plus the new one; a link stays a link. (f) command_line_reads_dictionaries: words added through the language server to the user and file dictionary of a document (plain path, directory reached through a symbolic link, document that is a symbolic link; names with spaces, non-ASCII letters, `%`) are not reported by `harper-cli lint` on the same path. (d) write_error_during_save: the server runs with RLIMIT_FSIZE at half the dictionary size (SIGXFSZ ignored) so that the rewrite fails part-way with EFBIG; the dictionary file must still hold every earlier word. Non-trivial (a) = >=2 adds and (a restart or a second document); (c) = pre-state with >=2 words.".into();
    run.threads = run.threads.min(8);
    case_variant_subrun(run);
    run.max_shrink_iters = 80;
    let n = run.n(150, 1_500);
    let max_ops = run.tier.pick(8usize, 14usize);
    run.prop("lsp_histories", n, move || history_strategy(max_ops), test_history);
    run.require_class("lsp_histories", "two_or_more_adds", (n / 3) as u64);
    run.require_class("lsp_histories", "restarted", (n / 8) as u64);
    run.require_class("lsp_histories", "file_dictionary_used", (n / 4) as u64);
    run.require_class("lsp_histories", "non_ascii_word_added", (n / 10) as u64);
    run.require_class("lsp_histories", "preseeded_file_without_trailing_newline", (n / 10) as u64);
    run.require_class("lsp_histories", "dictionary_file_edited_by_hand", (n / 5) as u64);

    // crash enumeration: small and >8 KiB dictionaries, user and file dictionaries
    let mut cases = vec![
        CrashCase { pre_words: 2, new_word: "frobnix".into(), user: true },
        CrashCase { pre_words: 700, new_word: "frobnix".into(), user: true },
        CrashCase { pre_words: 0, new_word: "frobnix".into(), user: true },
        CrashCase { pre_words: 3, new_word: "naïvetéx".into(), user: false },
    ];
    if run.tier == crate::core::Tier::Thorough {
        for (i, pw) in [1usize, 5, 40, 300, 1200, 2500, 5000].iter().enumerate() {
            cases.push(CrashCase { pre_words: *pw, new_word: vocab(i as u8).to_string(), user: i % 2 == 0 });
        }
        for i in 0..9u64 {
            cases.push(CrashCase { pre_words: (crate::core::mix(run.seed, i) % 2000) as usize, new_word: vocab(i as u8 + 7).to_string(), user: i % 3 != 0 });
        }
    }
    let saved = run.threads;
    run.threads = 4;
    run.enumerate("crash_point_enumeration", &cases, false, test_crash);
    run.threads = saved;
    let n = run.n(1_500, 40_000);
    run.prop("js_import_histories", n, js_strategy, test_js_history);
    run.require_class("js_import_histories", "export_new_linter_import", (n / 10) as u64);
    run.require_class("js_import_histories", "imports_relative_of_curated_word", (n / 4) as u64);
    let cli_cases: Vec<CliDictCase> = (0..9u8).map(|k| CliDictCase { path_kind: k % 3, name: k / 3 }).collect();
    run.enumerate("command_line_reads_dictionaries", &cli_cases, false, test_cli_dicts);
    let n = run.n(24, 400);
    run.prop(
        "large_dictionaries",
        n,
        || {
            (prop_oneof![1 => 2usize..40, 3 => 600usize..1800], 0u8..12, prop::bool::weighted(0.3), prop::bool::weighted(0.25))
                .prop_map(|(words, shift, symlink, crlf)| LargeDictCase { words, shift, symlink, crlf })
                .boxed()
        },
        test_large_dict,
    );
    run.require_class("large_dictionaries", "dictionary_file_over_8KiB", (n / 3) as u64);
    run.require_class("large_dictionaries", "dictionary_is_a_symbolic_link", (n / 12) as u64);
    let faults = vec![
        CrashCase { pre_words: 800, new_word: "frobnix".into(), user: true },
        CrashCase { pre_words: 300, new_word: "naïvetéx".into(), user: false },
    ];
    run.enumerate("write_error_during_save", &faults, false, test_write_failure);
    run.require_class("write_error_during_save", "write_failed_part_way", 2);
    run.require_class("crash_point_enumeration", "multi_write_save", 1);
    run.require_class("crash_point_enumeration", "crash_state", 20);
    if let Some(st) = run.stats.iter().find(|s| s.name == "crash_point_enumeration") {
        let states = st.class_count("crash_state");
        run.extra.insert("crash_states_enumerated".into(), json!(states));
    }
}

pub fn replay(check: &str, case: Value, _run: &mut Run) -> Result<(), String> {
    let mut ctx = CaseCtx::default();
    let r = if check == "command_line_reads_dictionaries" {
        let c: CliDictCase = serde_json::from_value(case).map_err(|e| e.to_string())?;
        test_cli_dicts(&c, &mut ctx)
    } else if check == "large_dictionaries" {
        let c: LargeDictCase = serde_json::from_value(case).map_err(|e| e.to_string())?;
        test_large_dict(&c, &mut ctx)
    } else if check == "js_import_histories" {
        let c: JsCase = serde_json::from_value(case).map_err(|e| e.to_string())?;
        test_js_history(&c, &mut ctx)
    } else if check == "write_error_during_save" {
        let c: CrashCase = serde_json::from_value(case).map_err(|e| e.to_string())?;
        test_write_failure(&c, &mut ctx)
    } else if check == "crash_point_enumeration" {
        let c: CrashCase = serde_json::from_value(case).map_err(|e| e.to_string())?;
        test_crash(&c, &mut ctx)
    } else {
        let c: DictCase = serde_json::from_value(case).map_err(|e| e.to_string())?;
        test_history(&c, &mut ctx)
    };
    if let Some(i) = ctx.classes.iter().find(|c| c.starts_with("INFRA")) {
        return Err(format!("infrastructure problem during replay: {i}"));
    }
    r
}

#[allow(dead_code)]
fn _unused(_: &dyn Fn() -> BoxedStrategy<String>) {
    let _ = g::plain_word;
}
