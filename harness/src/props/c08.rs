//! C08 — editor diagnostics and quick-fix edits land exactly on the flagged text.

use std::cell::RefCell;

use harper_core::linting::{Lint, LintGroup, Linter, Suggestion};
use harper_core::{Dialect, Document, Lrc};
use proptest::prelude::*;
use serde::{Deserialize, Serialize};
use serde_json::{Value, json};

use crate::core::{CaseCtx, Run};
use crate::frontends::Frontend;
use crate::generators as g;
use crate::lsp::{Diag, Sandbox, Server};
use crate::oracle::lsp_pos::{Pos, apply_edit, index_to_pos};
use crate::oracle::{self, ref_apply};

#[derive(Debug, Clone, Serialize, Deserialize, PartialEq, Eq, Hash)]
pub struct EditorCase {
    pub lang: String,
    pub text: String,
}

thread_local! {
    static SRV: RefCell<Option<(Sandbox, Server, u64)>> = const { RefCell::new(None) };
}

fn with_server<R>(f: impl FnOnce(&Sandbox, &mut Server, u64) -> Result<R, crate::lsp::LspError>) -> Result<R, crate::lsp::LspError> {
    SRV.with(|slot| {
        let mut slot = slot.borrow_mut();
        if slot.is_none() {
            let sb = Sandbox::new("c08");
            let settings = sb.settings(json!({}));
            let srv = Server::start(&sb, settings, None)?;
            *slot = Some((sb, srv, 0));
        }
        let (sb, srv, n) = slot.as_mut().unwrap();
        *n += 1;
        let r = f(sb, srv, *n);
        if r.is_err() {
            // do not reuse a server in an unknown state
            *slot = None;
        }
        r
    })
}

pub fn shutdown_thread_server() {
    SRV.with(|slot| {
        if let Some((_, srv, _)) = slot.borrow_mut().take() {
            let _ = srv.shutdown();
        }
    });
}

fn ext_for(lang: &str) -> &'static str {
    match lang {
        "markdown" => "md",
        "plaintext" => "txt",
        "html" => "html",
        "typst" => "typ",
        "rust" => "rs",
        "python" => "py",
        "javascript" => "js",
        "git-commit" => "COMMIT_EDITMSG",
        "literate haskell" => "lhs",
        "typescript" => "ts",
        "java" => "java",
        "go" => "go",
        "c" => "c",
        "lua" => "lua",
        "shellscript" => "sh",
        "toml" => "toml",
        "haskell" => "hs",
        "ruby" => "rb",
        _ => "txt",
    }
}

/// groups of (lint JSON, [(title, range, newText)]) parsed from a codeAction answer
fn parse_actions(ans: &Value, uri: &str) -> Vec<(Value, Vec<(Pos, Pos, String)>)> {
    let mut out = vec![];
    let mut edits: Vec<(Pos, Pos, String)> = vec![];
    let Some(arr) = ans.as_array() else {
        return out;
    };
    for a in arr {
        if a.get("edit").is_some() {
            let e = &a["edit"]["changes"][uri][0];
            let p = |x: &Value| Pos {
                line: x["line"].as_u64().unwrap_or(0) as u32,
                col: x["character"].as_u64().unwrap_or(0) as u32,
            };
            edits.push((
                p(&e["range"]["start"]),
                p(&e["range"]["end"]),
                e["newText"].as_str().unwrap_or("").to_string(),
            ));
        } else if a["command"].as_str() == Some("HarperIgnoreLint") {
            out.push((a["arguments"][1].clone(), std::mem::take(&mut edits)));
        }
    }
    out
}

fn pos_of(d: (u32, u32)) -> Pos {
    Pos { line: d.0, col: d.1 }
}

/// The same characters with one line break moved or removed (a re-wrapped paragraph, Vim's `J`):
/// char offsets stay, lines and columns change.
fn reflow(text: &str) -> Option<String> {
    let c: Vec<char> = text.chars().collect();
    // a lone LF between two non-break characters becomes a space
    if let Some(i) = (1..c.len().saturating_sub(1)).find(|&i| c[i] == '\n' && !matches!(c[i - 1], '\n' | '\r') && c[i + 1] != '\n') {
        let mut o = c.clone();
        o[i] = ' ';
        return Some(o.into_iter().collect());
    }
    // otherwise the first space between two letters becomes a line break
    let i = (1..c.len().saturating_sub(1)).find(|&i| c[i] == ' ' && c[i - 1].is_alphanumeric() && c[i + 1].is_alphanumeric())?;
    let mut o = c.clone();
    o[i] = '\n';
    Some(o.into_iter().collect())
}

pub fn test_editor(c: &EditorCase, ctx: &mut CaseCtx) -> Result<(), String> {
    test_editor_on(c, ctx)?;
    Ok(())
}

fn test_editor_on(c: &EditorCase, ctx: &mut CaseCtx) -> Result<(), String> {
    let text: Vec<char> = c.text.chars().collect();
    let reflowed = reflow(&c.text);
    let res = with_server(|sb, srv, n| {
        let uri = sb.uri(&format!("doc{n}.{}", ext_for(&c.lang)));
        let diags = srv.open(&uri, &c.lang, &c.text)?;
        // one request with each diagnostic's own range, and one at every inside position
        let mut answers: Vec<(usize, Option<usize>, Value)> = vec![];
        // map a diagnostic to its char span through the reference position arithmetic: find the
        // indices whose reference position equals the range ends
        for (di, d) in diags.iter().enumerate() {
            let a = srv.code_actions(&uri, d.start, d.end)?;
            answers.push((di, None, a));
            let s = crate::oracle::lsp_pos::pos_to_index(&text, pos_of(d.start));
            let e = crate::oracle::lsp_pos::pos_to_index(&text, pos_of(d.end));
            for p in s..e.min(s + 40) {
                let pp = index_to_pos(&text, p);
                let a = srv.code_actions(&uri, (pp.line, pp.col), (pp.line, pp.col))?;
                answers.push((di, Some(p), a));
            }
        }
        // the document re-wrapped: same characters, other lines and columns
        let diags2 = match &reflowed {
            Some(t2) => Some(srv.change(&uri, 2, t2)?),
            None => None,
        };
        srv.close(&uri)?;
        Ok((uri, diags, answers, diags2))
    });
    let (uri, diags, answers, diags2) = match res {
        Ok(v) => v,
        Err(e) => {
            ctx.infra(e);
            return Ok(());
        }
    };
    let n_lines = c.text.matches('\n').count() + 1;
    let last_line_no_nl = !c.text.ends_with('\n');
    let mut nt = false;
    for d in &diags {
        let s = crate::oracle::lsp_pos::pos_to_index(&text, pos_of(d.start));
        let line_start = text[..s].iter().rposition(|ch| *ch == '\n').map(|i| i + 1).unwrap_or(0);
        let astral_before = text[line_start..s].iter().any(|ch| ch.len_utf16() == 2);
        let on_later_line = d.start.0 > 0;
        let on_last = last_line_no_nl && d.start.0 as usize == n_lines - 1 && n_lines > 1;
        ctx.class_if(astral_before, "astral_before_lint_on_line");
        ctx.class_if(on_later_line, "lint_on_later_line");
        {
            let e = crate::oracle::lsp_pos::pos_to_index(&text, pos_of(d.end));
            let nested = diags.iter().filter(|o| {
                let (os, oe) = (crate::oracle::lsp_pos::pos_to_index(&text, pos_of(o.start)), crate::oracle::lsp_pos::pos_to_index(&text, pos_of(o.end)));
                s <= os && oe <= e && (os, oe) != (s, e)
            }).count();
            ctx.class_if(nested >= 2, "diagnostic_with_two_or_more_others_inside_it");
            ctx.class_if(d.start.0 == d.end.0 && text[s..e.min(text.len())].iter().any(|ch| ch.len_utf16() == 2), "single_line_diagnostic_containing_an_astral_character");
        }
        ctx.class_if(!on_later_line && text.first() == Some(&'\u{feff}'), "leading_byte_order_mark_with_lint_on_first_line");
        ctx.class_if(on_last, "lint_on_last_line_without_newline");
        nt |= astral_before || (n_lines >= 2 && on_later_line) || on_last;
    }
    ctx.class(format!("lang:{}", c.lang));
    ctx.class_if(c.text.contains("\r\n"), "crlf");
    ctx.class_if(!diags.is_empty(), "has_diagnostics");
    if nt {
        ctx.nontrivial(c);
    }

    // (1) every diagnostic corresponds to a lint whose reference range is the diagnostic's range
    let mut lints_seen: Vec<Lint> = vec![];
    for (di, at, ans) in &answers {
        let d = &diags[*di];
        let groups = parse_actions(ans, &uri);
        let mut found = false;
        for (lint_json, edits) in &groups {
            let lint: Lint = serde_json::from_value(lint_json.clone())
                .map_err(|e| format!("code action carries an unparsable lint: {e}"))?;
            if lint.span.end > text.len() || lint.span.start > lint.span.end {
                return Err(format!(
                    "lint span {}..{} outside the document ({} chars)",
                    lint.span.start,
                    lint.span.end,
                    text.len()
                ));
            }
            let rs = index_to_pos(&text, lint.span.start);
            let re = index_to_pos(&text, lint.span.end);
            let is_this = lint.message == d.message
                && (rs.line, rs.col) == d.start
                && (re.line, re.col) == d.end;
            if is_this {
                found = true;
                if !lints_seen.contains(&lint) {
                    lints_seen.push(lint.clone());
                }
                // (3) each text edit, applied the way a client does, equals Suggestion::apply
                if edits.len() != lint.suggestions.len() {
                    return Err(format!(
                        "lint {:?} has {} suggestions but {} quick-fix edits",
                        lint.message,
                        lint.suggestions.len(),
                        edits.len()
                    ));
                }
                for (sug, (es, ee, new_text)) in lint.suggestions.iter().zip(edits) {
                    let by_client = apply_edit(&text, *es, *ee, new_text);
                    let by_harper = {
                        let mut t = text.clone();
                        sug.apply(lint.span, &mut t);
                        t
                    };
                    let reference = ref_apply(&text, lint.span.start, lint.span.end, sug);
                    if by_client != by_harper || by_client != reference {
                        return Err(format!(
                            "quick fix {:?} for {:?}: the client-side edit (range {:?}-{:?}, newText {:?}) yields {:?}; applying the suggestion to the span {}..{} yields {:?}",
                            describe(sug), lint.message, es, ee, new_text,
                            oracle::string(&by_client), lint.span.start, lint.span.end, oracle::string(&reference)
                        ));
                    }
                }
            }
        }
        if !found {
            return Err(format!(
                "code actions requested {} for diagnostic {:?}-{:?} {:?} do not contain that lint's fixes (got {} lint groups: {:?})",
                match at {
                    Some(p) => format!("at char {p} (position {:?}) inside its range", index_to_pos(&text, *p)),
                    None => "with its own range".to_string(),
                },
                d.start, d.end, d.message, groups.len(),
                groups.iter().map(|(l, _)| (l["span"].clone(), l["message"].clone())).collect::<Vec<_>>()
            ));
        }
    }
    // after the re-wrap the published ranges are those of the new text
    if let (Some(t2), Some(d2)) = (&reflowed, &diags2) {
        if matches!(c.lang.as_str(), "plaintext" | "markdown" | "html" | "typst") {
            let text2: Vec<char> = t2.chars().collect();
            let fe = Frontend::of(&c.lang);
            if let Some((parser, dict)) = fe.build(&text2) {
                let doc = Document::new_from_vec(Lrc::new(text2.clone()), &parser, &dict);
                let mut group = LintGroup::new_curated(harper_core::FstDictionary::curated(), Dialect::American);
                if let Ok(lints) = crate::core::catch(|| group.lint(&doc)) {
                    let mut want: Vec<String> = lints
                        .iter()
                        .map(|l| {
                            let s = index_to_pos(&text2, l.span.start);
                            let e = index_to_pos(&text2, l.span.end);
                            Diag { start: (s.line, s.col), end: (e.line, e.col), message: l.message.clone(), severity: 4 }.key()
                        })
                        .collect();
                    let mut got: Vec<String> = d2.iter().map(|d| d.key()).collect();
                    want.sort();
                    got.sort();
                    if !want.is_empty() {
                        ctx.class("rewrapped_document_with_lints");
                    }
                    if want != got {
                        return Err(format!(
                            "after the text was re-wrapped to {:?} (same characters, one line break changed) the published diagnostics are {:?}; the lints of that text lie at {:?}",
                            t2, got, want
                        ));
                    }
                }
            }
        }
    }
    // in-process cross-check of the spans for front-ends without identifier dictionaries
    if matches!(c.lang.as_str(), "plaintext" | "markdown" | "html" | "typst") {
        let fe = Frontend::of(&c.lang);
        if let Some((parser, dict)) = fe.build(&text) {
            let doc = Document::new_from_vec(Lrc::new(text.clone()), &parser, &dict);
            let mut group = LintGroup::new_curated(harper_core::FstDictionary::curated(), Dialect::American);
            if let Ok(lints) = crate::core::catch(|| group.lint(&doc)) {
                let mut want: Vec<String> = lints
                    .iter()
                    .map(|l| {
                        let s = index_to_pos(&text, l.span.start);
                        let e = index_to_pos(&text, l.span.end);
                        Diag { start: (s.line, s.col), end: (e.line, e.col), message: l.message.clone(), severity: 4 }.key()
                    })
                    .collect();
                let mut got: Vec<String> = diags.iter().map(|d| d.key()).collect();
                want.sort();
                got.sort();
                if want != got {
                    return Err(format!(
                        "published diagnostics differ from the reference ranges of the lints of the same text: published {:?}, expected {:?}",
                        got, want
                    ));
                }
            }
        }
    }
    Ok(())
}

fn describe(s: &Suggestion) -> String {
    match s {
        Suggestion::ReplaceWith(r) => format!("replace with {:?}", r.iter().collect::<String>()),
        Suggestion::InsertAfter(r) => format!("insert {:?} after", r.iter().collect::<String>()),
        Suggestion::Remove => "remove".to_string(),
    }
}

fn sanitize(t: String) -> String {
    // LF and CRLF only: drop CR that is not followed by LF (lone CR is outside the property's domain)
    let c: Vec<char> = t.chars().collect();
    let mut out = String::new();
    for (i, ch) in c.iter().enumerate() {
        if *ch == '\r' && c.get(i + 1) != Some(&'\n') {
            continue;
        }
        out.push(*ch);
    }
    out
}

fn editor_text() -> BoxedStrategy<String> {
    let line = prop_oneof![
        4 => g::sentence(),
        2 => (g::sel_str(&["😀 ", "𝒜𝒷 ", "e\u{301} ", "\t", "  \t", "中文 ", "👨\u{200d}👩\u{200d}👧 "]), g::sentence()).prop_map(|(a, s)| a + &s),
        2 => g::sel_str(&["Their is an apple.", "I could of done it teh right way.", "This is an test with an problm.", "the the cat", "An 1nd time.", "teh"]),
        // lints spanning three or more lines; overlapping lints whose fixes have the same title
        // a quick fix that keeps a line break of the flagged text
        1 => g::sel_str(&["It is not that big\nof a deal to me.", "That was not too long\nof a wait for us.", "It was not that good\nof an idea after all.", "It is not that 😀 big\nof a deal."]),
        2 => g::sel_str(&["I saw the\n  \nthe cat.", "I saw the\n\t\nthe cat", "I saw the the the cat.", "We think that that\nthat is fine.", "It is is is 😀 fine.", "an\n \n \napple and a\n\n\nan end"]),
        1 => proptest::collection::vec(g::plain_word(), 41..60).prop_map(|ws| {
            // a run-on sentence hard-wrapped over several lines
            ws.chunks(12).map(|c| c.join(" ")).collect::<Vec<_>>().join("\n")
        }),
        // a run-on sentence (flagged as a whole) with further problems and astral characters inside
        // it: nested diagnostics, ranges that contain surrogate pairs
        2 => (proptest::collection::vec(prop_oneof![6 => g::plain_word(), 1 => g::sel_str(&["teh", "definate", "the the", "agian", "😀", "𝒜𝒷", "an apple an problem"])], 41..56), any::<bool>()).prop_map(|(ws, wrap)| {
            if wrap {
                ws.chunks(14).map(|c| c.join(" ")).collect::<Vec<_>>().join("\n")
            } else {
                ws.join(" ")
            }
        }),
        // lints whose span runs across markup or a comment-line boundary
        2 => g::sel_str(&["I saw the *the* cat.", "All of *the* sudden it rained.", "I saw the <b>the</b> cat.", "We could **of** gone, an *apple* a day.", "I saw the\nthe cat.", "It is a [an](x) apple and the `x` the end.", "there _fore_ we go", "an  *apple* and a  **apple**"]),
        1 => (g::sentence(), g::sel_str(&[" 😀 teh", " 𝒜 an apple an problem", "\tteh"])).prop_map(|(s, t)| s + &t),
        1 => Just(String::new()),
    ];
    (
        proptest::collection::vec((line, g::sel_str(&["\n", "\n", "\r\n", "\n\n"])), 1..6),
        any::<bool>(),
    )
        .prop_map(|(ls, trailing)| {
            let n = ls.len();
            let mut s = String::new();
            for (i, (l, nl)) in ls.into_iter().enumerate() {
                s.push_str(&l);
                if i + 1 < n || trailing {
                    s.push_str(&nl);
                }
            }
            let s = sanitize(s);
            s.chars().take(600).collect()
        })
        .boxed()
}

fn editor_case() -> BoxedStrategy<EditorCase> {
    let lang = prop_oneof![
        4 => Just("plaintext".to_string()),
        4 => Just("markdown".to_string()),
        1 => Just("html".to_string()),
        1 => Just("typst".to_string()),
        1 => Just("git-commit".to_string()),
        1 => Just("literate haskell".to_string()),
        1 => Just("rust".to_string()),
        1 => Just("python".to_string()),
        1 => Just("javascript".to_string()),
        2 => g::sel_str(&["typescript", "java", "go", "c", "lua", "shellscript", "toml", "haskell", "ruby"]),
    ];
    lang.prop_flat_map(|lang| {
        let text = match lang.as_str() {
            "rust" | "javascript" => editor_text()
                .prop_map(|t| t.lines().map(|l| format!("// {l}")).collect::<Vec<_>>().join("\n"))
                .boxed(),
            "python" => editor_text()
                .prop_map(|t| t.lines().map(|l| format!("# {l}")).collect::<Vec<_>>().join("\n"))
                .boxed(),
            "typescript" | "java" | "go" | "c" | "lua" | "shellscript" | "toml" | "haskell" | "ruby" => {
                let spec = crate::generators::program::lang_spec(lang.as_str()).expect("language table");
                let leader = spec.line[0];
                let prologue = spec.prologue;
                let code = spec.code[0].replace("{id}", "x").replace("{s}", "😀 ünï");
                (editor_text(), any::<bool>())
                    .prop_map(move |(t, code_first)| {
                        let body = t.lines().map(|l| format!("{leader} {l}")).collect::<Vec<_>>().join("\n");
                        if code_first {
                            format!("{prologue}{code}\n{body}")
                        } else {
                            format!("{prologue}{body}\n{code}\n")
                        }
                    })
                    .boxed()
            }
            "html" => editor_text().prop_map(|t| format!("<p>{t}</p>")).boxed(),
            _ => editor_text(),
        };
        // one case in eight starts with U+FEFF: one UTF-16 unit at line 0, column 0 of what the client sent
        (Just(lang), text, 0u8..8)
    })
    .prop_map(|(lang, text, bom)| EditorCase { lang, text: if bom == 0 { format!("\u{feff}{text}") } else { text } })
    .boxed()
}


// ------------------------------------------------------------------------------------------------
// quick fixes requested while an edit is being processed

/// The client sends an edit and, without waiting for the new diagnostics, code-action requests
/// (a cursor movement right after typing). Whichever state the server answers from, an answer is
/// consistent in itself: the lint it carries and the edits it offers belong to one and the same
/// text - the one before or the one after the edit.
#[derive(Debug, Clone, Serialize, Deserialize, PartialEq, Eq, Hash)]
pub struct RaceCase {
    pub before: String,
    /// 0 lines put in front, 1 first sentence removed, 2 first blank becomes a line break, 3 other text
    pub edit: u8,
    pub other: String,
}

fn plain_lints(text: &[char]) -> Option<Vec<Lint>> {
    let fe = Frontend::of("plaintext");
    let (parser, dict) = fe.build(text)?;
    let doc = Document::new_from_vec(Lrc::new(text.to_vec()), &parser, &dict);
    let mut group = LintGroup::new_curated(harper_core::FstDictionary::curated(), Dialect::American);
    crate::core::catch(|| group.lint(&doc)).ok()
}

pub fn test_race(c: &RaceCase, ctx: &mut CaseCtx) -> Result<(), String> {
    let t0: Vec<char> = c.before.chars().collect();
    let after: String = match c.edit % 4 {
        0 => format!("😀 A new first line that is long enough to hold every column of the old text, and then some more of it, and more.\n\nA second one.\n{}", c.before),
        1 => match c.before.find(". ") {
            Some(i) => c.before[i + 2..].to_string(),
            None => c.other.clone(),
        },
        2 => c.before.replacen(' ', "\n", 1),
        _ => c.other.clone(),
    };
    let t1: Vec<char> = after.chars().collect();
    let (Some(l0), Some(l1)) = (plain_lints(&t0), plain_lints(&t1)) else {
        ctx.class("skipped_c01_panic");
        return Ok(());
    };
    // probe where either text has a lint
    let mut probes: Vec<(Pos, Pos)> = vec![];
    for (t, ls) in [(&t0, &l0), (&t1, &l1)] {
        for l in ls.iter().take(4) {
            probes.push((index_to_pos(t, l.span.start), index_to_pos(t, l.span.end)));
            // the cursor somewhere inside the flagged text
            let mid = index_to_pos(t, l.span.start + (l.span.end - l.span.start) / 2);
            probes.push((mid, mid));
            let next = index_to_pos(t, (l.span.start + 1).min(l.span.end));
            probes.push((next, next));
        }
    }
    // A client only sends positions of its own buffer, which is the text after the edit. The
    // server may still answer from the text before it (handlers run concurrently), and there a
    // position that does not exist makes harper-ls build an inverted span and drop the request
    // (see DESIGN.md, section 9.3): keep the positions that exist in both texts (not past a line
    // end, not inside a surrogate pair).
    let valid_in = |t: &Vec<char>, p: &Pos| {
        let i = crate::oracle::lsp_pos::pos_to_index(t, *p);
        let q = index_to_pos(t, i);
        (q.line, q.col) == (p.line, p.col)
    };
    probes.retain(|(a, b)| valid_in(&t0, a) && valid_in(&t0, b) && valid_in(&t1, a) && valid_in(&t1, b));
    probes.dedup();
    if probes.is_empty() {
        ctx.class("no_lint_position_common_to_both_texts");
        return Ok(());
    }
    let res = with_server(|sb, srv, n| {
        let uri = sb.uri(&format!("race{n}.txt"));
        srv.open(&uri, "plaintext", &c.before)?;
        let before_pubs = srv.publications_for(&uri);
        srv.manual = true;
        let r = (|| {
            srv.notify("textDocument/didChange", json!({"textDocument": {"uri": uri, "version": 2}, "contentChanges": [{"text": after}]}))?;
            srv.pump_until(std::time::Duration::from_secs(60), "configuration request of didChange", |s| !s.pending_config.is_empty())?;
            // the answer that lets the edit proceed, and the requests, back to back
            srv.answer_config(0)?;
            let mut ids = vec![];
            for (a, b) in &probes {
                ids.push(srv.request("textDocument/codeAction", json!({"textDocument": {"uri": uri}, "range": {"start": {"line": a.line, "character": a.col}, "end": {"line": b.line, "character": b.col}}, "context": {"diagnostics": []}}))?);
            }
            let mut answers = vec![];
            for id in ids {
                // further configuration requests (none are expected) must not block the answers
                let t_end = std::time::Instant::now() + std::time::Duration::from_secs(60);
                loop {
                    while !srv.pending_config.is_empty() {
                        srv.answer_config(0)?;
                    }
                    match srv.wait_response(id, std::time::Duration::from_millis(300)) {
                        Ok(v) => {
                            answers.push(v);
                            break;
                        }
                        Err(crate::lsp::LspError::Timeout(w)) => {
                            if std::time::Instant::now() > t_end {
                                return Err(crate::lsp::LspError::Timeout(w));
                            }
                        }
                        Err(e) => return Err(e),
                    }
                }
            }
            srv.pump_until(std::time::Duration::from_secs(60), "publication after didChange", |s| s.publications_for(&uri) > before_pubs)?;
            Ok(answers)
        })();
        srv.manual = false;
        while !srv.pending_config.is_empty() {
            srv.answer_config(0)?;
        }
        let answers = r?;
        srv.close(&uri)?;
        Ok((uri, answers))
    });
    let (uri, answers) = match res {
        Ok(v) => v,
        Err(e) => {
            if std::env::var("HV_DEBUG_RACE").is_ok() {
                eprintln!("RACE-INFRA {e:?} case={}", serde_json::to_string(c).unwrap_or_default());
            }
            ctx.infra(e);
            return Ok(());
        }
    };
    ctx.nontrivial(c);
    let mut from_old = 0;
    let mut from_new = 0;
    for (k, ans) in answers.iter().enumerate() {
        if let Some(err) = ans.get("error") {
            return Err(format!(
                "code-action request #{k} sent right after an edit ({:?} -> {:?}) failed: {err}",
                c.before, after
            ));
        }
        for (lint_json, edits) in parse_actions(&ans["result"], &uri) {
            let lint: Lint = serde_json::from_value(lint_json.clone()).map_err(|e| format!("code action carries an unparsable lint: {e}"))?;
            let consistent_with = |t: &Vec<char>, ls: &Vec<Lint>| -> bool {
                if lint.span.end > t.len() || !ls.contains(&lint) || edits.len() != lint.suggestions.len() {
                    return false;
                }
                lint.suggestions.iter().zip(&edits).all(|(sug, (es, ee, new_text))| {
                    apply_edit(t, *es, *ee, new_text) == ref_apply(t, lint.span.start, lint.span.end, sug)
                })
            };
            let old = consistent_with(&t0, &l0);
            let new = consistent_with(&t1, &l1);
            from_old += old as usize;
            from_new += (new && !old) as usize;
            if !old && !new {
                return Err(format!(
                    "edit {:?} -> {:?}, code actions requested right behind it at {:?}: the answer carries the lint {:?} at {}..{} with edits {:?}, which is a quick fix neither of the text before nor of the text after the edit",
                    c.before, after, probes[k], lint.message, lint.span.start, lint.span.end, edits
                ));
            }
        }
    }
    ctx.class_if(from_old > 0, "answered_from_the_text_before_the_edit");
    ctx.class_if(from_new > 0, "answered_from_the_text_after_the_edit");
    Ok(())
}

fn race_case() -> BoxedStrategy<RaceCase> {
    let bad = || g::sel_str(&["See you tomorow.", "Their is an apple on teh table.", "I could of done it teh right way.", "This is an test with an problm.", "We saw the the cat.", "An 1nd time it happend again."]);
    (proptest::collection::vec(prop_oneof![3 => bad(), 1 => g::sentence()], 1..4), 0u8..4, proptest::collection::vec(prop_oneof![2 => bad(), 1 => g::sentence()], 0..3))
        .prop_map(|(a, edit, b)| RaceCase { before: sanitize(a.join(" ")), edit, other: sanitize(b.join("\n")) })
        .boxed()
}


// ------------------------------------------------------------------------------------------------
// the same race on a source file, with the schedule steered by the harness

thread_local! {
    static SRV_RACE: RefCell<Option<(Sandbox, Server, u64)>> = const { RefCell::new(None) };
}

/// A server whose user dictionary is large (100,000 words): loading it takes tens of milliseconds,
/// and harper-ls reloads it *while holding the document lock* whenever the identifiers of a source
/// file change. A request that arrives during that reload waits for the lock and is served right
/// after the new text was stored - before the new diagnostics are computed. The harness times one
/// edit and then aims its requests at that phase of the next one.
fn with_race_server<R>(f: impl FnOnce(&Sandbox, &mut Server, u64) -> Result<R, crate::lsp::LspError>) -> Result<R, crate::lsp::LspError> {
    SRV_RACE.with(|slot| {
        let mut slot = slot.borrow_mut();
        if slot.is_none() {
            let sb = Sandbox::new("c08race");
            let mut words = String::new();
            for i in 0..100_000u32 {
                words.push_str(&format!("zq{}word{}\n", i % 97, i));
            }
            if let Some(d) = sb.user_dict().parent() {
                let _ = std::fs::create_dir_all(d);
            }
            std::fs::write(sb.user_dict(), words).map_err(|e| crate::lsp::LspError::Protocol(e.to_string()))?;
            let settings = sb.settings(json!({}));
            let srv = Server::start(&sb, settings, None)?;
            *slot = Some((sb, srv, 0));
        }
        let (sb, srv, n) = slot.as_mut().unwrap();
        *n += 1;
        let r = f(sb, srv, *n);
        if r.is_err() {
            *slot = None;
        }
        r
    })
}

pub fn shutdown_race_server() {
    SRV_RACE.with(|slot| {
        if let Some((_, srv, _)) = slot.borrow_mut().take() {
            let _ = srv.shutdown();
        }
    });
}

#[derive(Debug, Clone, Serialize, Deserialize, PartialEq, Eq, Hash)]
pub struct RaceCodeCase {
    /// 0 comment lines put in front, 1 first comment line removed, 2 a line break inside the comment
    pub edit: u8,
    /// when the requests are sent: this many twentieths of the duration of the previous edit
    /// after the configuration answer that lets the edit proceed
    pub when: u8,
    pub comment: String,
}

pub fn test_race_code(c: &RaceCodeCase, ctx: &mut CaseCtx) -> Result<(), String> {
    use std::time::{Duration, Instant};
    let body = c.comment.replace(['\n', '\r'], " ");
    let res = with_race_server(|sb, srv, n| {
        let ident = |k: u64| format!("fn item_{:05}_{k}() {{}}\n", n % 100_000);
        let old_comment = format!("// {body}\n// Their is an apple on teh table.\n");
        let new_comment = match c.edit % 3 {
            0 => format!("// 😀 A new first comment line that is long enough to hold every column of the old text, and more.\n//\n{old_comment}"),
            1 => "// Their is an apple on teh table.\n".to_string(),
            _ => old_comment.replacen(" is ", "\n// is ", 1),
        };
        let t0 = format!("{old_comment}{}", ident(1));
        let t0w = format!("{old_comment}{}", ident(2));
        let t1 = format!("{new_comment}{}", ident(3));
        let (c0, c1): (Vec<char>, Vec<char>) = (t0w.chars().collect(), t1.chars().collect());
        // where the lints of either text lie
        let other = sb.uri(&format!("other{n}.rs"));
        let d1 = srv.open(&other, "rust", &t1)?;
        srv.close(&other)?;
        let uri = sb.uri(&format!("race{n}.rs"));
        let d0 = srv.open(&uri, "rust", &t0)?;
        let valid_in = |t: &Vec<char>, p: (u32, u32)| {
            let i = crate::oracle::lsp_pos::pos_to_index(t, pos_of(p));
            let q = index_to_pos(t, i);
            (q.line, q.col) == p
        };
        let mut probes: Vec<((u32, u32), (u32, u32))> = vec![];
        for d in d0.iter().chain(d1.iter()).take(8) {
            probes.push((d.start, d.end));
            if d.start.0 == d.end.0 && d.end.1 > d.start.1 + 1 {
                probes.push(((d.start.0, d.start.1 + 1), (d.start.0, d.start.1 + 1)));
            }
        }
        probes.retain(|(a, b)| valid_in(&c0, *a) && valid_in(&c0, *b) && valid_in(&c1, *a) && valid_in(&c1, *b));
        probes.dedup();
        if probes.is_empty() {
            srv.close(&uri)?;
            return Ok(None);
        }
        srv.manual = true;
        let r = (|| {
            // one edit that changes the identifiers, timed from the configuration answer on
            let before = srv.publications_for(&uri);
            srv.notify("textDocument/didChange", json!({"textDocument": {"uri": uri, "version": 2}, "contentChanges": [{"text": t0w}]}))?;
            srv.pump_until(Duration::from_secs(60), "configuration request of didChange", |s| !s.pending_config.is_empty())?;
            let started = Instant::now();
            srv.answer_config(0)?;
            loop {
                while !srv.pending_config.is_empty() {
                    srv.answer_config(0)?;
                }
                match srv.pump_until(Duration::from_millis(200), "publication after didChange", |s| s.publications_for(&uri) > before || !s.pending_config.is_empty()) {
                    Ok(()) if srv.publications_for(&uri) > before => break,
                    Ok(()) => {}
                    Err(crate::lsp::LspError::Timeout(w)) => {
                        if started.elapsed() > Duration::from_secs(60) {
                            return Err(crate::lsp::LspError::Timeout(w));
                        }
                    }
                    Err(e) => return Err(e),
                }
            }
            let took = started.elapsed();
            // the answers of the quiescent server for the text before the edit
            let mut a0 = vec![];
            for (a, b) in &probes {
                let id = srv.request("textDocument/codeAction", json!({"textDocument": {"uri": uri}, "range": {"start": {"line": a.0, "character": a.1}, "end": {"line": b.0, "character": b.1}}, "context": {"diagnostics": []}}))?;
                a0.push(srv.wait_response(id, Duration::from_secs(60))?);
            }
            // the edit, and the requests aimed at the phase in which the server holds the new text
            // but has not linted it yet
            let before = srv.publications_for(&uri);
            srv.notify("textDocument/didChange", json!({"textDocument": {"uri": uri, "version": 3}, "contentChanges": [{"text": t1}]}))?;
            srv.pump_until(Duration::from_secs(60), "configuration request of didChange", |s| !s.pending_config.is_empty())?;
            srv.answer_config(0)?;
            let wait = took.mul_f64((c.when % 20) as f64 / 20.0);
            let t = Instant::now();
            while t.elapsed() < wait {
                std::hint::spin_loop();
            }
            let mut ids = vec![];
            for (a, b) in &probes {
                ids.push(srv.request("textDocument/codeAction", json!({"textDocument": {"uri": uri}, "range": {"start": {"line": a.0, "character": a.1}, "end": {"line": b.0, "character": b.1}}, "context": {"diagnostics": []}}))?);
            }
            let mut racing = vec![];
            for id in ids {
                let t_end = Instant::now() + Duration::from_secs(60);
                loop {
                    while !srv.pending_config.is_empty() {
                        srv.answer_config(0)?;
                    }
                    match srv.wait_response(id, Duration::from_millis(300)) {
                        Ok(v) => {
                            racing.push(v);
                            break;
                        }
                        Err(crate::lsp::LspError::Timeout(w)) => {
                            if Instant::now() > t_end {
                                return Err(crate::lsp::LspError::Timeout(w));
                            }
                        }
                        Err(e) => return Err(e),
                    }
                }
            }
            loop {
                while !srv.pending_config.is_empty() {
                    srv.answer_config(0)?;
                }
                match srv.pump_until(Duration::from_millis(200), "publication after didChange", |s| s.publications_for(&uri) > before || !s.pending_config.is_empty()) {
                    Ok(()) if srv.publications_for(&uri) > before => break,
                    Ok(()) => {}
                    Err(crate::lsp::LspError::Timeout(w)) => {
                        if t.elapsed() > Duration::from_secs(60) {
                            return Err(crate::lsp::LspError::Timeout(w));
                        }
                    }
                    Err(e) => return Err(e),
                }
            }
            // the answers of the quiescent server for the text after the edit
            let mut a1 = vec![];
            for (a, b) in &probes {
                let id = srv.request("textDocument/codeAction", json!({"textDocument": {"uri": uri}, "range": {"start": {"line": a.0, "character": a.1}, "end": {"line": b.0, "character": b.1}}, "context": {"diagnostics": []}}))?;
                a1.push(srv.wait_response(id, Duration::from_secs(60))?);
            }
            Ok((took, a0, racing, a1))
        })();
        srv.manual = false;
        while !srv.pending_config.is_empty() {
            srv.answer_config(0)?;
        }
        let out = r?;
        srv.close(&uri)?;
        Ok(Some((probes, t0w, t1, out)))
    });
    let (probes, t0w, t1, (took, a0, racing, a1)) = match res {
        Ok(Some(v)) => v,
        Ok(None) => {
            ctx.class("no_lint_position_common_to_both_texts");
            return Ok(());
        }
        Err(e) => {
            if std::env::var("HV_DEBUG_RACE").is_ok() {
                eprintln!("RACE-INFRA {e:?} case={}", serde_json::to_string(c).unwrap_or_default());
            }
            ctx.infra(e);
            return Ok(());
        }
    };
    ctx.nontrivial(c);
    ctx.class_if(took >= std::time::Duration::from_millis(10), "edit_with_dictionary_reload_takes_10ms_or_more");
    let (mut old, mut new) = (0, 0);
    for k in 0..probes.len() {
        let r = &racing[k];
        if let Some(err) = r.get("error") {
            return Err(format!("code-action request at {:?} sent {:?} into an edit of a Rust file failed: {err}", probes[k], took.mul_f64((c.when % 20) as f64 / 20.0)));
        }
        let is_old = r["result"] == a0[k]["result"];
        let is_new = r["result"] == a1[k]["result"];
        old += (is_old && !is_new) as usize;
        new += (is_new && !is_old) as usize;
        if !is_old && !is_new {
            return Err(format!(
                "Rust file edited from {:?} to {:?}; code actions requested at {:?} while the edit was being processed ({:?} after the configuration answer; the previous edit took {:?}) are neither what the server answers for the text before the edit nor what it answers for the text after it: {}",
                t0w, t1, probes[k], took.mul_f64((c.when % 20) as f64 / 20.0), took,
                crate::core::truncate(&r["result"].to_string(), 600)
            ));
        }
    }
    ctx.class_if(old > 0, "answered_from_the_text_before_the_edit");
    ctx.class_if(new > 0, "answered_from_the_text_after_the_edit");
    Ok(())
}

fn race_code_case() -> BoxedStrategy<RaceCodeCase> {
    let bad = g::sel_str(&["See you tomorow.", "I could of done it teh right way.", "This is an test with an problm.", "We saw the the cat.", "An 1nd time it happend again."]);
    (0u8..3, prop_oneof![1 => 0u8..8, 2 => 8u8..20], bad).prop_map(|(edit, when, comment)| RaceCodeCase { edit, when, comment }).boxed()
}

pub fn run(run: &mut Run) {
    run.rule = "documents of 1-5 generated lines (G-TEXT sentences, known-bad sentences, astral / combining / tab prefixes) with LF, CRLF and blank-line separators, with and without trailing newline, opened in the real harper-ls under 9 language ids; for every published diagnostic one codeAction request with its own range and one zero-width request at every char position inside it (<=40). Oracle: independent LSP position arithmetic (UTF-16 columns, lines split at \\n): diagnostic range == reference range of the lint carried in the answer, every inside position returns that lint's fixes, each TextEdit applied like a client == Suggestion::apply on the char span == reference splice; for plain/Markdown/HTML/Typst the published set equals the in-process lints. code_actions_racing_an_edit: a didChange and, right behind the configuration answer that lets it proceed, code-action requests at the lint positions of the old and the new text: every answer must be a quick fix of the text before or of the text after the edit (lint among that text's lints, edits = reference splice), never a mixture, and no request may fail. code_actions_racing_a_source_file_edit: the same on Rust files with a 100,000-word user dictionary, whose reload under the document lock (identifiers changed) the harness times on one edit and aims its requests at on the next; every answer must equal what the quiescent server answers for the text before or for the text after the edit. Non-trivial = lint on a later line, astral char before a lint on its line, or lint on the last line without trailing newline.".into();
    let n = run.n(1_000, 10_000);
    run.threads = run.threads.min(8);
    run.max_shrink_iters = 80;
    run.prop("editor_round_trip", n, editor_case, test_editor);
    run.require_class("editor_round_trip", "lint_on_later_line", (n / 4) as u64);
    run.require_class("editor_round_trip", "astral_before_lint_on_line", (n / 20) as u64);
    run.require_class("editor_round_trip", "lint_on_last_line_without_newline", (n / 20) as u64);
    run.require_class("editor_round_trip", "crlf", (n / 10) as u64);
    run.require_class("editor_round_trip", "diagnostic_with_two_or_more_others_inside_it", (n / 125) as u64);
    run.require_class("editor_round_trip", "single_line_diagnostic_containing_an_astral_character", (n / 125) as u64);
    run.require_class("editor_round_trip", "leading_byte_order_mark_with_lint_on_first_line", (n / 40) as u64);
    let n = run.n(200, 4_000);
    run.prop("code_actions_racing_an_edit", n, race_case, test_race);
    run.require_class("code_actions_racing_an_edit", "answered_from_the_text_before_the_edit", (n / 40) as u64);
    run.require_class("code_actions_racing_an_edit", "answered_from_the_text_after_the_edit", (n / 40) as u64);
    let n = run.n(96, 1_500);
    let saved = run.threads;
    run.threads = run.threads.min(4);
    run.prop("code_actions_racing_a_source_file_edit", n, race_code_case, test_race_code);
    run.threads = saved;
    run.require_class("code_actions_racing_a_source_file_edit", "edit_with_dictionary_reload_takes_10ms_or_more", (n / 2) as u64);
    run.require_class("code_actions_racing_a_source_file_edit", "answered_from_the_text_after_the_edit", (n / 20) as u64);
}

pub fn replay(_check: &str, case: Value, _run: &mut Run) -> Result<(), String> {
    if _check == "code_actions_racing_a_source_file_edit" {
        let c: RaceCodeCase = serde_json::from_value(case).map_err(|e| e.to_string())?;
        let mut ctx = CaseCtx::default();
        let r = test_race_code(&c, &mut ctx);
        shutdown_race_server();
        if let Some(i) = ctx.classes.iter().find(|c| c.starts_with("INFRA")) {
            return Err(format!("infrastructure problem during replay: {i}"));
        }
        return r;
    }
    if _check == "code_actions_racing_an_edit" {
        let c: RaceCase = serde_json::from_value(case).map_err(|e| e.to_string())?;
        let mut ctx = CaseCtx::default();
        let r = test_race(&c, &mut ctx);
        shutdown_thread_server();
        if let Some(i) = ctx.classes.iter().find(|c| c.starts_with("INFRA")) {
            return Err(format!("infrastructure problem during replay: {i}"));
        }
        return r;
    }
    let c: EditorCase = serde_json::from_value(case).map_err(|e| e.to_string())?;
    let mut ctx = CaseCtx::default();
    let r = test_editor(&c, &mut ctx);
    shutdown_thread_server();
    if let Some(i) = ctx.classes.iter().find(|c| c.starts_with("INFRA")) {
        return Err(format!("infrastructure problem during replay: {i}"));
    }
    r
}
