//! C04 — only prose is checked, and it is located at its true position in the file.
//!
//! Files are rendered from an abstract specification together with their ground truth: the list
//! of (char offset, word) of the prose words. Prose words come from a vocabulary of plain
//! dictionary words; everything that is not prose (identifiers, string literals, inline code,
//! code fences, math, tags, URLs, ignored comments) is filled from a disjoint sentinel
//! vocabulary that includes multi-byte text.

use harper_core::{Document, Lrc, TokenKind};
use proptest::prelude::*;
use serde::{Deserialize, Serialize};
use serde_json::Value;

use crate::core::{CaseCtx, Run};
use crate::frontends::Frontend;
use crate::generators::program::{LangSpec, lang_spec};
use crate::generators::{self as g};

pub const KF_RUBY: &str = "KF-C04-ruby-block-comment-delimiters";

const SENTINELS: &[&str] = &[
    "zqxv", "zqfoo", "Zqbar", "zq_snake_id", "zqCamelId", "ünïzq😀", "zq中文", "zqé", "𝒜zq", "zq1", "ZQ", "zq-kebab",
];
const IGNORE_MARKERS: &[&str] = &[
    "harper:ignore", "harper: ignore", "spellchecker:ignore", "spellchecker: ignore", "spell-checker:ignore",
    "spell-checker: ignore", "spellcheck:ignore", "spellcheck: ignore",
];

#[derive(Debug, Clone, Serialize, Deserialize, PartialEq, Eq, Hash)]
pub enum Seg {
    /// code line: template index, identifier sentinel, string sentinel, indentation
    Code { template: u8, ident: u8, string: u8, indent: u8 },
    /// comment: style index (line leaders first, then block styles), lines of prose-word indices,
    /// optional ignore marker, star-prefixed block lines, indentation
    Comment { style: u8, lines: Vec<Vec<u16>>, ignore: Option<u8>, stars: bool, indent: u8 },
    /// a line comment whose prose opens with `word:word` (prose, not a directive)
    KeyValueComment { style: u8, words: Vec<u16>, indent: u8 },
    /// a comment holding a closed fenced code example between two prose lines; `gaps` says which of
    /// the code lines are preceded by an empty line (bit i: before code line i), `stars` whether
    /// block-comment lines carry a ` * ` leader. Only rendered for the languages whose comments go
    /// through the generic (`Unit`) comment parser, which is the one that documents fences.
    FencedComment { style: u8, before: Vec<u16>, code: Vec<u8>, gaps: u8, after: Vec<u16>, stars: bool, indent: u8 },
    Blank,
}

#[derive(Debug, Clone, Serialize, Deserialize, PartialEq, Eq, Hash)]
pub enum Block {
    Para(Vec<Vec<u16>>),
    Heading(u8, Vec<u16>),
    List(Vec<Vec<u16>>, u8),
    Quote(Vec<u16>),
    /// prose with an inline construct in the middle: 0 code, 1 math, 2 link, 3 emphasis, 4 html tag, 5 strong
    Inline(Vec<u16>, u8, u8, Vec<u16>),
    Fence(u8, u8),
    Indented(u8),
    DisplayMath(u8),
    Table(Vec<u16>, Vec<u16>),
    RawHtml(u8),
}

#[derive(Debug, Clone, Serialize, Deserialize, PartialEq, Eq, Hash)]
pub enum FileSpec {
    Source { lang: String, segs: Vec<Seg>, crlf: bool },
    Markdown { blocks: Vec<Block> },
    Html { parts: Vec<(u8, Vec<u16>, u8)> },
    Lhs { parts: Vec<(bool, Vec<Vec<u16>>, u8)>, latex: bool },
    GitCommit { subject: Vec<u16>, body: Vec<Vec<u16>>, trailer: u8 },
    Typst { parts: Vec<(u8, Vec<u16>, u8)> },
}

pub struct Truth {
    pub lang: String,
    pub text: String,
    n: usize,
    pub words: Vec<(usize, String)>,
    pub nonprose: Vec<(usize, usize)>,
    pub ignored_words: Vec<String>,
    pub prose_segments: usize,
    multibyte_before_prose: bool,
    seen_multibyte: bool,
    /// blanks around a delimiter line / a character reference were rendered
    pub class_pad: bool,
    pub class_marker_late: bool,
    pub class_entity: bool,
    pub class_fence_in_comment: bool,
    pub class_go_directive: bool,
    pub class_fence_gap_in_block_comment: bool,
}

impl Truth {
    fn new(lang: &str) -> Truth {
        Truth {
            lang: lang.to_string(),
            text: String::new(),
            n: 0,
            words: vec![],
            nonprose: vec![],
            ignored_words: vec![],
            prose_segments: 0,
            class_pad: false,
            class_marker_late: false,
            class_entity: false,
            class_fence_in_comment: false,
            class_go_directive: false,
            class_fence_gap_in_block_comment: false,
            multibyte_before_prose: false,
            seen_multibyte: false,
        }
    }
    /// neutral syntax (delimiters, whitespace, punctuation)
    fn raw(&mut self, s: &str) {
        self.text.push_str(s);
        self.n += s.chars().count();
    }
    fn nonprose(&mut self, s: &str) {
        let st = self.n;
        self.raw(s);
        self.nonprose.push((st, self.n));
        if !s.is_ascii() {
            self.seen_multibyte = true;
        }
    }
    fn word(&mut self, w: &str) {
        self.words.push((self.n, w.to_string()));
        if self.seen_multibyte {
            self.multibyte_before_prose = true;
        }
        self.raw(w);
    }
    fn sentence(&mut self, idxs: &[u16]) {
        let vocab = &g::harvest().plain_words;
        let mut any = false;
        for (i, ix) in idxs.iter().enumerate() {
            if i > 0 {
                self.raw(" ");
            }
            self.word(&vocab[crate::core::pick_idx(*ix, vocab.len())]);
            any = true;
        }
        if any {
            self.raw(".");
            self.prose_segments += 1;
        }
    }
    fn ignored_sentence(&mut self, idxs: &[u16]) {
        let vocab = &g::harvest().plain_words;
        for (i, ix) in idxs.iter().enumerate() {
            if i > 0 {
                self.raw(" ");
            }
            let w = &vocab[crate::core::pick_idx(*ix, vocab.len())];
            // ignored comments: their words must not be offered; use recognisable non-words
            let w = format!("zqig{w}");
            self.ignored_words.push(w.clone());
            self.nonprose(&w);
        }
    }
}

fn sentinel(i: u8) -> &'static str {
    SENTINELS[i as usize % SENTINELS.len()]
}

fn ascii_sentinel(i: u8) -> &'static str {
    ["zqxv", "zqfoo", "Zqbar", "zq_snake_id", "zqCamelId", "zq1"][i as usize % 6]
}

fn indent(i: u8) -> &'static str {
    ["", "  ", "    ", "\t"][i as usize % 4]
}

fn render_source(spec: &'static LangSpec, segs: &[Seg], crlf: bool) -> Truth {
    let mut t = Truth::new(spec.id);
    let nl = if crlf { "\r\n" } else { "\n" };
    t.raw(spec.prologue);
    let mut last_was_comment = false;
    for seg in segs {
        match seg {
            Seg::Blank => {
                t.raw(nl);
            }
            Seg::Code { template, ident, string, indent: ind } => {
                let tpl = spec.code[*template as usize % spec.code.len()];
                t.raw(indent(*ind));
                // split the template at the holes
                let mut rest = tpl;
                while !rest.is_empty() {
                    let a = rest.find("{id}");
                    let b = rest.find("{s}");
                    let (pos, is_id) = match (a, b) {
                        (Some(a), Some(b)) => {
                            if a < b {
                                (a, true)
                            } else {
                                (b, false)
                            }
                        }
                        (Some(a), None) => (a, true),
                        (None, Some(b)) => (b, false),
                        (None, None) => {
                            t.nonprose(rest);
                            break;
                        }
                    };
                    if pos > 0 {
                        t.nonprose(&rest[..pos]);
                    }
                    if is_id {
                        t.nonprose(ascii_sentinel(*ident));
                        rest = &rest[pos + 4..];
                    } else {
                        // string literal content: sentinel words incl. multi-byte text
                        t.nonprose(&format!("{} {}", sentinel(*string), sentinel(string.wrapping_add(3))));
                        rest = &rest[pos + 3..];
                    }
                }
                t.raw(nl);
                last_was_comment = false;
            }
            Seg::KeyValueComment { style, words, indent: ind } => {
                if spec.line.is_empty() || words.len() < 3 {
                    continue;
                }
                let vocab = &g::harvest().plain_words;
                let w = |i: usize| vocab[crate::core::pick_idx(words[i], vocab.len())].clone();
                t.raw(indent(*ind));
                t.raw(spec.line[*style as usize % spec.line.len()]);
                t.raw(" ");
                t.word(&w(0));
                t.raw(":");
                t.word(&w(1));
                t.raw(" ");
                t.sentence(&words[2..]);
                t.raw(nl);
                last_was_comment = true;
            }
            Seg::FencedComment { style, before, code, gaps, after, stars, indent: ind } => {
                let nline = spec.line.len();
                let nstyles = nline + spec.block.len();
                if nstyles == 0 {
                    continue;
                }
                let generic = !matches!(spec.id, "javascript" | "javascriptreact" | "typescript" | "typescriptreact" | "java" | "go");
                let st = *style as usize % nstyles;
                let block = st >= nline;
                let lead: String = if block {
                    (if *stars { " * " } else { "   " }).to_string()
                } else {
                    format!("{} ", spec.line[st])
                };
                if block {
                    t.raw(indent(*ind));
                    t.raw(spec.block[st - nline].0);
                    t.raw(nl);
                }
                t.raw(indent(*ind));
                t.raw(&lead);
                t.sentence(before);
                t.raw(nl);
                if generic {
                    t.class_fence_in_comment = true;
                    t.raw(indent(*ind));
                    t.raw(&lead);
                    t.nonprose("```");
                    t.raw(nl);
                    for (ci, c) in code.iter().enumerate() {
                        if gaps >> (ci % 8) & 1 == 1 {
                            // an empty line inside the example: a bare leader in line comments and
                            // starred blocks, a really empty line in a block comment without stars
                            t.raw(indent(*ind));
                            if block && !*stars {
                                t.class_fence_gap_in_block_comment = true;
                            } else {
                                t.raw(lead.trim_end());
                            }
                            t.raw(nl);
                        }
                        t.raw(indent(*ind));
                        t.raw(&lead);
                        t.nonprose(&format!("{} = {}(1)", ascii_sentinel(*c), ascii_sentinel(c.wrapping_add(1))));
                        t.raw(nl);
                    }
                    t.raw(indent(*ind));
                    t.raw(&lead);
                    t.nonprose("```");
                    t.raw(nl);
                }
                t.raw(indent(*ind));
                t.raw(&lead);
                t.sentence(after);
                t.raw(nl);
                if block {
                    t.raw(indent(*ind));
                    t.raw(" ");
                    t.raw(spec.block[st - nline].1);
                    t.raw(nl);
                }
                last_was_comment = true;
            }
            Seg::Comment { style, lines, ignore, stars, indent: ind } => {
                let nline = spec.line.len();
                let nstyles = nline + spec.block.len();
                if nstyles == 0 {
                    continue;
                }
                // adjacent comments are merged by design: an ignore marker then has no unambiguous
                // scope, so ignored comments (and comments following one) are fenced by a code line
                if ignore.is_some() && last_was_comment {
                    t.nonprose(&spec.code[0].replace("{id}", "zqsep").replace("{s}", "zq"));
                    t.raw(nl);
                }
                let st = *style as usize % nstyles;
                let ig = ignore.map(|i| IGNORE_MARKERS[i as usize % IGNORE_MARKERS.len()]);
                if st < nline {
                    let leader = spec.line[st];
                    // Go: a compiler directive that opens the (merged) comment is not prose; the
                    // prose lines after it in the same comment are, at their true offsets
                    if spec.id == "go" && *stars && ignore.is_none() && !last_was_comment && leader == "//" {
                        t.raw(indent(*ind));
                        t.raw(leader);
                        t.nonprose(["go:noinline", "go:build linux", "go:generate zqxv -type=Zqbar"][lines.len() % 3]);
                        t.raw(nl);
                        t.class_go_directive = true;
                    }
                    for (li, line) in lines.iter().enumerate() {
                        t.raw(indent(*ind));
                        t.raw(leader);
                        t.raw(" ");
                        if let Some(m) = ig {
                            // the marker counts wherever it stands in the comment: in front, at
                            // the very end, or after the tool's bare name was mentioned in passing
                            let place = ignore.unwrap_or(0) as usize / IGNORE_MARKERS.len() % 3;
                            if li == 0 && place == 0 {
                                t.nonprose(m);
                                t.raw(" ");
                            }
                            if li == 0 && place == 2 {
                                t.nonprose(m.split(':').next().unwrap_or("harper"));
                                t.raw(" ");
                            }
                            t.ignored_sentence(line);
                            if (place == 1 && li + 1 == lines.len()) || (place == 2 && li == 0) {
                                t.raw(" ");
                                t.nonprose(m);
                                t.class_marker_late = true;
                            }
                        } else {
                            t.sentence(line);
                        }
                        t.raw(nl);
                    }
                } else {
                    let (open, close) = spec.block[st - nline];
                    t.raw(indent(*ind));
                    t.raw(open);
                    t.raw(nl);
                    for (li, line) in lines.iter().enumerate() {
                        t.raw(indent(*ind));
                        t.raw(if *stars { " * " } else { "   " });
                        if let Some(m) = ig {
                            // the marker counts wherever it stands in the comment: in front, at
                            // the very end, or after the tool's bare name was mentioned in passing
                            let place = ignore.unwrap_or(0) as usize / IGNORE_MARKERS.len() % 3;
                            if li == 0 && place == 0 {
                                t.nonprose(m);
                                t.raw(" ");
                            }
                            if li == 0 && place == 2 {
                                t.nonprose(m.split(':').next().unwrap_or("harper"));
                                t.raw(" ");
                            }
                            t.ignored_sentence(line);
                            if (place == 1 && li + 1 == lines.len()) || (place == 2 && li == 0) {
                                t.raw(" ");
                                t.nonprose(m);
                                t.class_marker_late = true;
                            }
                        } else {
                            t.sentence(line);
                        }
                        t.raw(nl);
                    }
                    t.raw(indent(*ind));
                    t.raw(" ");
                    t.raw(close);
                    t.raw(nl);
                }
                if ignore.is_some() {
                    t.nonprose(&spec.code[0].replace("{id}", "zqsep").replace("{s}", "zq"));
                    t.raw(nl);
                    last_was_comment = false;
                } else {
                    last_was_comment = true;
                }
            }
        }
    }
    t
}

fn render_markdown(blocks: &[Block]) -> Truth {
    let mut t = Truth::new("markdown");
    let mut prev_list = false;
    for b in blocks {
        // an indented block right after a list is a continuation paragraph of the item, not code
        let b = match b {
            Block::Indented(s) if prev_list => &Block::Fence(0, *s),
            other => other,
        };
        prev_list = matches!(b, Block::List(..) | Block::Quote(..));
        match b {
            Block::Para(lines) => {
                for l in lines {
                    t.sentence(l);
                    t.raw("\n");
                }
            }
            Block::Heading(level, ws) => {
                t.raw(&"#".repeat(1 + *level as usize % 6));
                t.raw(" ");
                t.sentence(ws);
                t.raw("\n");
            }
            Block::List(items, kind) => {
                for (i, it) in items.iter().enumerate() {
                    let bullet = match kind % 4 {
                        0 => "- ".to_string(),
                        1 => "* ".to_string(),
                        2 => format!("{}. ", i + 1),
                        _ => "  - ".to_string(),
                    };
                    if kind % 4 == 3 && i == 0 {
                        t.raw("- ");
                    } else {
                        t.raw(&bullet);
                    }
                    t.sentence(it);
                    t.raw("\n");
                }
            }
            Block::Quote(ws) => {
                t.raw("> ");
                t.sentence(ws);
                t.raw("\n");
            }
            Block::Inline(a, kind, s, b) => {
                let vocab = &g::harvest().plain_words;
                let put = |t: &mut Truth, ws: &[u16]| {
                    for (i, ix) in ws.iter().enumerate() {
                        if i > 0 {
                            t.raw(" ");
                        }
                        t.word(&vocab[crate::core::pick_idx(*ix, vocab.len())]);
                    }
                };
                put(&mut t, a);
                t.raw(" ");
                match kind % 8 {
                    6 | 7 => {
                        // character references: markup, not prose (`&nbsp;` is no word "nbsp")
                        t.class_entity = true;
                        let e = ["&hellip;", "&nbsp;", "&amp;", "&rarr;", "&mdash;", "&#8212;", "&copy;", "&#x1F600;"][*s as usize % 8];
                        if kind % 8 == 6 {
                            // glued to the neighbouring words
                            t.n -= 1;
                            t.text.pop();
                            t.raw(e);
                            put(&mut t, &b[..b.len().min(2)]);
                            t.raw(e);
                        } else {
                            t.raw(e);
                            t.raw(" ");
                            put(&mut t, &b[..b.len().min(2)]);
                            t.raw(" ");
                            t.raw(e);
                        }
                    }
                    0 => {
                        t.raw("`");
                        t.nonprose(&format!("{} {}", sentinel(*s), ascii_sentinel(*s)));
                        t.raw("`");
                    }
                    1 => {
                        t.raw("$");
                        t.nonprose(&format!("{}+{}", ascii_sentinel(*s), sentinel(*s)));
                        t.raw("$");
                    }
                    2 => {
                        t.raw("[");
                        put(&mut t, &b[..b.len().min(2)]);
                        t.raw("](");
                        t.nonprose(&format!("https://example.com/{}/{}", ascii_sentinel(*s), ascii_sentinel(s.wrapping_add(1))));
                        t.raw(")");
                    }
                    3 => {
                        t.raw("*");
                        put(&mut t, &b[..b.len().min(2)]);
                        t.raw("*");
                    }
                    4 => {
                        t.nonprose(&format!("<span class=\"{}\">", sentinel(*s)));
                        put(&mut t, &b[..b.len().min(2)]);
                        t.nonprose("</span>");
                    }
                    _ => {
                        t.raw("**");
                        put(&mut t, &b[..b.len().min(2)]);
                        t.raw("**");
                    }
                }
                t.raw(" ");
                put(&mut t, b);
                t.raw(".\n");
                t.prose_segments += 1;
            }
            Block::Fence(kind, s) => {
                let f = ["```", "```rust", "~~~"][*kind as usize % 3];
                t.raw(f);
                t.raw("\n");
                t.nonprose(&format!("let {} = \"{}\";", ascii_sentinel(*s), sentinel(*s)));
                t.raw("\n");
                t.raw(&f[..3]);
                t.raw("\n");
            }
            Block::Indented(s) => {
                t.raw("    ");
                t.nonprose(&format!("{} {}", sentinel(*s), ascii_sentinel(*s)));
                t.raw("\n");
            }
            Block::DisplayMath(s) => {
                t.raw("$$\n");
                t.nonprose(&format!("{} = {}", ascii_sentinel(*s), sentinel(*s)));
                t.raw("\n$$\n");
            }
            Block::Table(a, b) => {
                t.raw("| ");
                t.sentence(a);
                t.raw(" | ");
                t.sentence(b);
                t.raw(" |\n|---|---|\n| ");
                t.sentence(b);
                t.raw(" | ");
                t.sentence(a);
                t.raw(" |\n");
            }
            Block::RawHtml(s) => {
                t.nonprose(&format!("<div class=\"{}\"></div>", sentinel(*s)));
                t.raw("\n");
            }
        }
        t.raw("\n");
    }
    t
}

fn render_html(parts: &[(u8, Vec<u16>, u8)]) -> Truth {
    let mut t = Truth::new("html");
    for (kind, ws, s) in parts {
        match kind % 7 {
            0 => {
                t.nonprose("<p>");
                t.sentence(ws);
                t.nonprose("</p>");
            }
            1 => {
                t.nonprose(&format!("<div class=\"{}\" title='{}'>", sentinel(*s), ascii_sentinel(*s)));
                t.sentence(ws);
                t.nonprose("</div>");
            }
            2 => {
                t.nonprose(&format!("<script>var {} = \"{}\";</script>", ascii_sentinel(*s), sentinel(*s)));
            }
            3 => {
                t.nonprose(&format!("<style>.{} {{ color: red; }}</style>", ascii_sentinel(*s)));
            }
            4 => {
                t.nonprose(&format!("<!-- {} {} -->", sentinel(*s), ascii_sentinel(*s)));
            }
            5 => {
                t.nonprose(&format!("<a href=\"https://example.com/{}\">", ascii_sentinel(*s)));
                t.sentence(ws);
                t.nonprose("</a>");
            }
            _ => {
                t.nonprose(&format!("<img src=\"{}.png\">", ascii_sentinel(*s)));
                t.nonprose("<h1>");
                t.sentence(ws);
                t.nonprose("</h1>");
            }
        }
        t.raw("\n");
    }
    t
}

fn render_lhs(parts: &[(bool, Vec<Vec<u16>>, u8)], latex: bool) -> Truth {
    let mut t = Truth::new("literate haskell");
    for (code, lines, s) in parts {
        if *code {
            // blanks around the delimiter lines (trailing spaces, a tab, an indented fence, a
            // whitespace-only line closing a bird-track block) are legal and invisible
            let pad = ["", "", "  ", "\t", " "][*s as usize % 5];
            let lead = ["", "", "", "  "][(*s as usize / 5) % 4];
            if latex {
                t.raw(&format!("{lead}\\begin{{code}}{pad}\n"));
                t.nonprose(&format!("{} = \"{}\"", ascii_sentinel(*s), sentinel(*s)));
                t.raw(&format!("\n{lead}\\end{{code}}{pad}\n"));
            } else {
                t.raw(&format!("{pad}\n> "));
                t.nonprose(&format!("{} = \"{}\"", ascii_sentinel(*s), sentinel(*s)));
                t.raw("\n> ");
                t.nonprose(&format!("{} = 1", ascii_sentinel(s.wrapping_add(1))));
                t.raw(&format!("\n{pad}\n"));
            }
            t.class_pad = t.class_pad || !pad.is_empty() || !lead.is_empty();
        } else {
            for l in lines {
                t.sentence(l);
                t.raw("\n");
            }
            t.raw("\n");
        }
    }
    t
}

fn render_git(subject: &[u16], body: &[Vec<u16>], trailer: u8) -> Truth {
    let mut t = Truth::new("git-commit");
    // editors and templates leave blank lines or a little indentation in front of the subject
    let lead = ["", "", "", "\n", "  ", "\n ", " ", "\n\n", "\u{a0}"][trailer as usize % 9];
    t.raw(lead);
    t.class_pad = !lead.is_empty();
    t.sentence(subject);
    t.raw("\n\n");
    for l in body {
        t.sentence(l);
        t.raw("\n");
    }
    t.raw("\n");
    t.raw("# ");
    t.nonprose(&format!("Please enter the {} message. {}", ascii_sentinel(trailer), sentinel(trailer)));
    t.raw("\n#\t");
    t.nonprose(&format!("modified: {}.rs", ascii_sentinel(trailer)));
    t.raw("\n");
    t
}

fn render_typst(parts: &[(u8, Vec<u16>, u8)]) -> Truth {
    let mut t = Truth::new("typst");
    for (kind, ws, s) in parts {
        match kind % 10 {
            9 => {
                // string literal in code: displayed content, linted by design; escapes in between
                let vocab = &g::harvest().plain_words;
                t.raw("#let m = \"");
                for (i, ix) in ws.iter().enumerate() {
                    if i > 0 {
                        t.raw([" ", " \\\" ", "\\\" ", " \\\\ "][(*s as usize + i) % 4]);
                    }
                    t.word(&vocab[crate::core::pick_idx(*ix, vocab.len())]);
                }
                t.raw("\"");
                t.prose_segments += 1;
            }
            0 => t.sentence(ws),
            1 => {
                t.raw("= ");
                t.sentence(ws);
            }
            2 => {
                t.raw("- ");
                t.sentence(ws);
            }
            3 => {
                t.raw("$ ");
                t.nonprose(&format!("{} + {}", ascii_sentinel(*s), ascii_sentinel(s.wrapping_add(1))));
                t.raw(" $");
            }
            4 => {
                t.raw("`");
                t.nonprose(&format!("{} {}", sentinel(*s), ascii_sentinel(*s)));
                t.raw("`");
            }
            5 => {
                t.raw("#image(\"");
                t.nonprose(&format!("{}.png", ascii_sentinel(*s)));
                t.raw("\")");
            }
            6 => {
                t.raw("*");
                t.sentence(ws);
                t.raw("*");
            }
            7 => {
                t.raw("// ");
                t.nonprose(&format!("{} {}", sentinel(*s), ascii_sentinel(*s)));
            }
            _ => {
                t.raw("#rgb(\"");
                t.nonprose(ascii_sentinel(*s));
                t.raw("\")");
            }
        }
        t.raw("\n\n");
    }
    t
}

pub fn render(spec: &FileSpec) -> Option<Truth> {
    Some(match spec {
        FileSpec::Source { lang, segs, crlf } => render_source(lang_spec(lang)?, segs, *crlf),
        FileSpec::Markdown { blocks } => render_markdown(blocks),
        FileSpec::Html { parts } => render_html(parts),
        FileSpec::Lhs { parts, latex } => render_lhs(parts, *latex),
        FileSpec::GitCommit { subject, body, trailer } => render_git(subject, body, *trailer),
        FileSpec::Typst { parts } => render_typst(parts),
    })
}

pub fn test_file(spec: &FileSpec, ctx: &mut CaseCtx) -> Result<(), String> {
    test_file_with(spec, ctx, false)
}

fn test_file_with(spec: &FileSpec, ctx: &mut CaseCtx, server_wrappers: bool) -> Result<(), String> {
    test_file_via(spec, ctx, server_wrappers, false)?;
    // the command-line tool picks the front-end from the file name
    if !server_wrappers {
        if let FileSpec::Source { lang, .. } = spec {
            if crate::frontends::extension_of(lang).is_some() {
                test_file_via(spec, &mut CaseCtx::default(), false, true).map_err(|e| format!("[front-end chosen from the file name] {e}"))?;
                ctx.class("front_end_chosen_from_file_name");
            }
        }
    }
    Ok(())
}

fn test_file_via(spec: &FileSpec, ctx: &mut CaseCtx, server_wrappers: bool, by_filename: bool) -> Result<(), String> {
    let Some(truth) = render(spec) else {
        return Ok(());
    };
    if truth.lang == "git-commit" && !crate::frontends::has_git_commit() {
        return Ok(());
    }
    let source: Vec<char> = truth.text.chars().collect();
    let mut fe = Frontend::of(&truth.lang);
    fe.server_wrappers = server_wrappers;
    fe.by_filename = by_filename;
    let dc = super::docsweep::DocCase {
        fe: fe.clone(),
        text: truth.text.clone(),
        config: crate::generators::ConfigSpec::curated(),
        dialect: 0,
    };
    if let Some(kf) = super::docsweep::excluded_by_known(&dc) {
        ctx.class(format!("excluded:{kf}"));
        return Ok(());
    }
    let doc = match crate::core::catch(|| {
        let (parser, dict) = fe.build(&source).expect("front-end");
        Document::new_from_vec(Lrc::new(source.clone()), &parser, &dict)
    }) {
        Ok(d) => d,
        Err(_) => {
            ctx.class("skipped_c01_panic");
            return Ok(());
        }
    };
    ctx.class(format!("lang:{}", truth.lang));
    ctx.class_if(truth.multibyte_before_prose, "multibyte_nonprose_before_prose");
    ctx.class_if(truth.prose_segments >= 2, "prose_segments>=2");
    ctx.class_if(!truth.ignored_words.is_empty(), "has_ignored_comment");
    ctx.class_if(truth.class_pad, "blanks_around_delimiter_line");
    ctx.class_if(truth.class_marker_late, "ignore_marker_not_at_the_start_of_its_comment");
    ctx.class_if(truth.class_entity, "character_reference");
    ctx.class_if(truth.class_fence_in_comment, "fenced_example_in_comment");
    ctx.class_if(truth.class_go_directive, "go_directive_opens_a_comment_with_prose");
    ctx.class_if(truth.class_fence_gap_in_block_comment, "empty_line_inside_fence_in_unstarred_block_comment");
    ctx.class_if(server_wrappers, "server_wrappers");
    if truth.multibyte_before_prose && truth.prose_segments >= 2 {
        ctx.nontrivial(&(spec, server_wrappers));
    }
    let mut got: Vec<(usize, String)> = doc
        .get_tokens()
        .iter()
        .filter(|t| matches!(t.kind, TokenKind::Word(_)))
        .map(|t| (t.span.start, source[t.span.start..t.span.end.min(source.len())].iter().collect()))
        .collect();
    got.sort();
    let mut want = truth.words.clone();
    want.sort();
    // open finding: Ruby block comment delimiters come out as the words `begin` / `end`
    if truth.lang == "ruby" {
        let before = got.len();
        got.retain(|(o, w)| {
            !((w == "begin" || w == "end") && *o > 0 && source[*o - 1] == '=' && !want.contains(&(*o, w.clone())))
        });
        if got.len() != before {
            ctx.known(KF_RUBY);
        }
    }
    if got != want {
        let extra: Vec<&(usize, String)> = got.iter().filter(|x| !want.contains(x)).collect();
        let missing: Vec<&(usize, String)> = want.iter().filter(|x| !got.contains(x)).collect();
        return Err(format!(
            "{}{}: words seen by harper differ from the prose words of the file. Not prose but seen: {:?}; prose but missing or misplaced: {:?}",
            truth.lang,
            if server_wrappers { " (server wrappers)" } else { "" },
            extra.iter().take(4).collect::<Vec<_>>(),
            missing.iter().take(4).collect::<Vec<_>>()
        ));
    }
    // nothing lintable overlaps a non-prose region
    for t in doc.get_tokens() {
        if matches!(t.kind, TokenKind::Unlintable | TokenKind::ParagraphBreak | TokenKind::Newline(_) | TokenKind::Space(_)) || t.span.start == t.span.end {
            continue;
        }
        // punctuation/number tokens produced from delimiters are tolerated only outside non-prose regions
        if let Some((a, b)) = truth.nonprose.iter().find(|(a, b)| t.span.start < *b && *a < t.span.end) {
            if matches!(t.kind, TokenKind::Word(_) | TokenKind::Number(_) | TokenKind::Url | TokenKind::EmailAddress | TokenKind::Hostname) {
                return Err(format!(
                    "{}: a lintable {:?} token {}..{} ({:?}) lies inside the non-prose region {}..{} ({:?})",
                    truth.lang,
                    crate::oracle::tokens::kind_label(&t.kind),
                    t.span.start,
                    t.span.end,
                    source[t.span.start..t.span.end].iter().collect::<String>(),
                    a,
                    b,
                    source[*a..*b].iter().collect::<String>()
                ));
            }
        }
    }
    Ok(())
}

fn words(min: usize, max: usize) -> BoxedStrategy<Vec<u16>> {
    proptest::collection::vec(any::<u16>(), min..max).boxed()
}

fn source_spec(lang: &'static str) -> BoxedStrategy<FileSpec> {
    let seg = prop_oneof![
        3 => (any::<u8>(), any::<u8>(), any::<u8>(), 0u8..4).prop_map(|(template, ident, string, indent)| Seg::Code { template, ident, string, indent }),
        5 => (any::<u8>(), proptest::collection::vec(words(2, 6), 1..4), proptest::option::weighted(0.15, any::<u8>()), any::<bool>(), 0u8..4)
            .prop_map(|(style, lines, ignore, stars, indent)| Seg::Comment { style, lines, ignore, stars, indent }),
        1 => Just(Seg::Blank),
        1 => (any::<u8>(), words(3, 6), 0u8..4).prop_map(|(style, words, indent)| Seg::KeyValueComment { style, words, indent }),
        2 => (any::<u8>(), words(2, 5), proptest::collection::vec(any::<u8>(), 1..4), any::<u8>(), words(2, 5), any::<bool>(), 0u8..4)
            .prop_map(|(style, before, code, gaps, after, stars, indent)| Seg::FencedComment { style, before, code, gaps, after, stars, indent }),
    ];
    (proptest::collection::vec(seg, 2..9), prop::bool::weighted(0.2))
        .prop_map(move |(segs, crlf)| FileSpec::Source { lang: lang.to_string(), segs, crlf })
        .boxed()
}

fn markdown_spec() -> BoxedStrategy<FileSpec> {
    let block = prop_oneof![
        3 => proptest::collection::vec(words(2, 6), 1..3).prop_map(Block::Para),
        1 => (0u8..6, words(2, 5)).prop_map(|(l, w)| Block::Heading(l, w)),
        1 => (proptest::collection::vec(words(2, 5), 1..4), 0u8..4).prop_map(|(i, k)| Block::List(i, k)),
        1 => words(2, 5).prop_map(Block::Quote),
        4 => (words(1, 4), 0u8..8, any::<u8>(), words(2, 4)).prop_map(|(a, k, s, b)| Block::Inline(a, k, s, b)),
        1 => (0u8..3, any::<u8>()).prop_map(|(k, s)| Block::Fence(k, s)),
        1 => any::<u8>().prop_map(Block::Indented),
        1 => any::<u8>().prop_map(Block::DisplayMath),
        1 => (words(2, 4), words(2, 4)).prop_map(|(a, b)| Block::Table(a, b)),
        1 => any::<u8>().prop_map(Block::RawHtml),
    ];
    proptest::collection::vec(block, 2..8)
        .prop_map(|blocks| FileSpec::Markdown { blocks })
        .boxed()
}

fn file_spec() -> BoxedStrategy<FileSpec> {
    let langs: Vec<&'static str> = crate::generators::program::LANGS.iter().map(|l| l.id).collect();
    let n = langs.len();
    let parts = || proptest::collection::vec((any::<u8>(), words(2, 6), any::<u8>()), 2..8);
    prop_oneof![
        22 => (0..n).prop_flat_map(move |i| source_spec(langs[i])),
        4 => markdown_spec(),
        2 => parts().prop_map(|parts| FileSpec::Html { parts }),
        2 => (proptest::collection::vec((any::<bool>(), proptest::collection::vec(words(2, 6), 1..3), any::<u8>()), 2..6), any::<bool>())
            .prop_map(|(parts, latex)| FileSpec::Lhs { parts, latex }),
        1 => (words(2, 6), proptest::collection::vec(words(2, 6), 0..3), any::<u8>()).prop_map(|(subject, body, trailer)| FileSpec::GitCommit { subject, body, trailer }),
        2 => parts().prop_map(|parts| FileSpec::Typst { parts }),
    ]
    .boxed()
}

pub fn run(run: &mut Run) {
    run.rule = "files rendered from an abstract spec with ground truth: for each of the 22 comment languages 2-8 segments (syntactically valid code lines with sentinel identifiers / string contents incl. multi-byte text, line and block comments of every style the language has with 1-3 prose sentences, 15% carrying an ignore marker and fenced by code lines, blank lines; LF/CRLF; indentation), and Markdown (paragraphs, headings, lists, quotes, tables, inline code/math/link/emphasis/HTML tag, fences, indented code, display math, raw HTML), HTML, Literate Haskell (bird and LaTeX style), git-commit and Typst documents. Oracle: the multiset {(offset, text) of Word tokens} == the generator's prose-word list exactly, and no lintable token lies in a non-prose region. Each file is checked bare and with the server's identifier-collapsing wrapper. Non-trivial = multi-byte non-prose content before a prose segment and >=2 prose segments.".into();
    run.guard = true;
    run.max_shrink_iters = 600;
    if !run.strict && run.known.get(KF_RUBY).is_some() {
        let spec = FileSpec::Source {
            lang: "ruby".into(),
            segs: vec![Seg::Code { template: 0, ident: 0, string: 0, indent: 0 }],
            crlf: false,
        };
        let _ = spec;
        // witness: a hand-written Ruby file with a block comment
        let text = "x = 1\n=begin\nplain words here.\n=end\ny = 2\n";
        let src: Vec<char> = text.chars().collect();
        if let Some((parser, dict)) = Frontend::of("ruby").build(&src) {
            let doc = Document::new_from_vec(Lrc::new(src.clone()), &parser, &dict);
            let seen: Vec<String> = doc
                .get_tokens()
                .iter()
                .filter(|t| matches!(t.kind, TokenKind::Word(_)))
                .map(|t| src[t.span.start..t.span.end].iter().collect())
                .collect();
            if seen.iter().any(|w| w == "begin") {
                run.note_known(KF_RUBY);
            }
        }
    }
    let n = run.n(40_000, 600_000);
    run.prop("files_with_ground_truth", n, file_spec, |spec, ctx| {
        test_file_with(spec, ctx, false)?;
        if matches!(spec, FileSpec::Source { .. } | FileSpec::Lhs { .. }) {
            let mut c2 = CaseCtx::default();
            test_file_with(spec, &mut c2, true)?;
            ctx.known_hits.extend(c2.known_hits);
        }
        Ok(())
    });
    for l in crate::frontends::all_lang_ids() {
        if l == "plaintext" {
            continue;
        }
        run.require_class("files_with_ground_truth", &format!("lang:{l}"), (n / 300) as u64);
    }
    run.require_class("files_with_ground_truth", "multibyte_nonprose_before_prose", (n / 5) as u64);
    run.require_class("files_with_ground_truth", "has_ignored_comment", (n / 10) as u64);
    run.require_class("files_with_ground_truth", "ignore_marker_not_at_the_start_of_its_comment", (n / 20) as u64);
    run.require_class("files_with_ground_truth", "blanks_around_delimiter_line", (n / 100) as u64);
    run.require_class("files_with_ground_truth", "character_reference", (n / 200) as u64);
    run.require_class("files_with_ground_truth", "fenced_example_in_comment", (n / 20) as u64);
    run.require_class("files_with_ground_truth", "go_directive_opens_a_comment_with_prose", (n / 400) as u64);
    run.require_class("files_with_ground_truth", "empty_line_inside_fence_in_unstarred_block_comment", (n / 400) as u64);
}

pub fn replay(_check: &str, case: Value, run: &mut Run) -> Result<(), String> {
    let c: FileSpec = serde_json::from_value(case).map_err(|e| e.to_string())?;
    let mut ctx = CaseCtx::default();
    let r = test_file_with(&c, &mut ctx, false).and_then(|_| {
        if matches!(c, FileSpec::Source { .. } | FileSpec::Lhs { .. }) {
            test_file_with(&c, &mut ctx, true)
        } else {
            Ok(())
        }
    });
    if run.strict && !ctx.known_hits.is_empty() {
        return Err(format!("reproduces known finding {:?}", ctx.known_hits));
    }
    r
}
