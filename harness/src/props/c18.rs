//! C18 — title-casing only changes letter case and is idempotent.

use harper_core::parsers::PlainEnglish;
use harper_core::{Dictionary, Document, FstDictionary, TokenStringExt, make_title_case_str};
use proptest::prelude::*;
use serde_json::Value;

use crate::core::{CaseCtx, Run};
use crate::generators as g;

fn is_apostrophe_variant(c: char) -> bool {
    matches!(c, '’' | '‘' | '＇')
}

pub fn test_title(text: &String, ctx: &mut CaseCtx) -> Result<(), String> {
    let dict = FstDictionary::curated();
    let out = make_title_case_str(text, &PlainEnglish, &dict);
    let a: Vec<char> = text.chars().collect();
    let b: Vec<char> = out.chars().collect();
    let doc = Document::new(text, &PlainEnglish, &dict);
    let word_likes = doc.iter_word_likes().count();
    let has_small = text.split_whitespace().any(|w| {
        matches!(
            w.to_lowercase().as_str(),
            "a" | "an" | "the" | "of" | "in" | "on" | "and" | "but" | "for" | "or" | "nor" | "to" | "at" | "by"
        )
    });
    let has_proper = doc.iter_words().any(|t| t.kind.is_proper_noun());
    ctx.class_if(has_small, "has_small_word");
    ctx.class_if(has_proper, "has_proper_noun");
    ctx.class_if(!text.is_ascii(), "multibyte");
    if word_likes >= 3 && (has_small || has_proper) {
        ctx.nontrivial(text);
    }
    if a.len() != b.len() {
        return Err(format!(
            "length changed: {} chars in, {} chars out: {:?} -> {:?}",
            a.len(),
            b.len(),
            text,
            out
        ));
    }
    for (i, (x, y)) in a.iter().zip(&b).enumerate() {
        if x == y {
            continue;
        }
        let case_only = x.to_lowercase().eq(y.to_lowercase());
        if case_only {
            continue;
        }
        // curly apostrophe of a known proper noun normalised to '
        if is_apostrophe_variant(*x) && *y == '\'' {
            let tok = doc.get_tokens().iter().find(|t| t.span.start <= i && i < t.span.end);
            if tok.is_some_and(|t| t.kind.is_proper_noun()) {
                continue;
            }
        }
        return Err(format!(
            "char {i} changed other than in case: {x:?} -> {y:?} ({:?} -> {:?})",
            text, out
        ));
    }
    // first word-like token starts with an upper-case letter when it starts with an ASCII letter
    if let Some(first) = doc.iter_word_likes().next() {
        let c = a[first.span.start];
        if c.is_ascii_alphabetic() && !b[first.span.start].is_ascii_uppercase() {
            return Err(format!(
                "first word-like token does not start upper-case: {:?} -> {:?}",
                text, out
            ));
        }
    }
    let again = make_title_case_str(&out, &PlainEnglish, &dict);
    if again != out {
        return Err(format!(
            "not idempotent: {:?} -> {:?} -> {:?}",
            text, out, again
        ));
    }
    Ok(())
}

fn title_text() -> BoxedStrategy<String> {
    let proper = || {
        // proper nouns from the dictionary in wrong case
        let words: &'static Vec<String> = &g::harvest().dict_words;
        any::<u16>()
            .prop_map(move |s| {
                let dict = FstDictionary::curated();
                let n = words.len();
                let start = crate::core::pick_idx(s, n);
                for k in 0..2000 {
                    let w = &words[(start + k) % n];
                    let c: Vec<char> = w.chars().collect();
                    if dict
                        .get_word_metadata(&c)
                        .is_some_and(|m| m.is_proper_noun())
                    {
                        return w.clone();
                    }
                }
                "Boston".to_string()
            })
            .prop_flat_map(|w| {
                prop_oneof![
                    Just(w.to_lowercase()),
                    Just(w.to_uppercase()),
                    Just(w.replace('\'', "’")),
                    Just(w.to_lowercase().replace('\'', "‘")),
                    Just(w),
                ]
            })
    };
    let word = prop_oneof![
        6 => g::plain_word(),
        3 => g::sel_str(&["a", "an", "the", "of", "in", "on", "and", "but", "for", "or", "nor", "to", "at", "by", "from", "with", "over", "into", "about", "THE", "Of", "AND"]),
        3 => proper(),
        2 => g::word_like(),
        1 => g::sel_str(&["ﬁsh", "İstanbul", "ıslak", "ǆ", "straße", "éclair", "😀", "o’clock", "rock-and-roll", "state-of-the-art", "3rd", "iPhone", "e.g.", "U.S.", "don’t", "it's"]),
    ];
    prop_oneof![
        6 => proptest::collection::vec((word, g::sel_str(&[" ", " ", " ", ", ", "-", ": ", " — ", "  "])), 1..9)
            .prop_map(|v| {
                let n = v.len();
                v.into_iter().enumerate().map(|(i, (w, s))| if i + 1 < n { w + &s } else { w }).collect::<String>()
            }),
        2 => g::paragraph(),
        1 => g::harvested_sentence(),
    ]
    .boxed()
}

pub fn run(run: &mut Run) {
    run.rule = "single-paragraph texts: 1-8 words drawn from dictionary words, short prepositions/articles/conjunctions, dictionary proper nouns in wrong case / with curly apostrophes, special words (ligatures, Turkish İ/ı, astral, hyphenated, contractions, numbers) with varied separators; plus G-TEXT paragraphs and harvested sentences; through make_title_case_str(PlainEnglish, curated). Non-trivial = >=3 word-like tokens incl. a small word or a proper noun; distinct by text.".into();
    let n = run.n(50_000, 3_000_000);
    run.prop("title_case", n, title_text, test_title);
    run.require_class("title_case", "has_small_word", (n / 10) as u64);
    run.require_class("title_case", "has_proper_noun", (n / 10) as u64);
}

pub fn replay(_check: &str, case: Value, _run: &mut Run) -> Result<(), String> {
    let c: String = serde_json::from_value(case).map_err(|e| e.to_string())?;
    let mut ctx = CaseCtx::default();
    test_title(&c, &mut ctx)
}
