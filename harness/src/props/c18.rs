//! C18 — title-casing only changes letter case and is idempotent.

use harper_core::parsers::PlainEnglish;
use harper_core::{Dictionary, Document, FstDictionary, TokenStringExt, make_title_case_str};
use proptest::prelude::*;
use serde_json::Value;

use crate::core::{CaseCtx, Run};
use crate::generators as g;

fn is_apostrophe_variant(c: char) -> bool {
    matches!(c, '’' | '‘' | '＇')
}

/// matches every token it is given
struct Everything;

impl harper_core::patterns::Pattern for Everything {
    fn matches(&self, tokens: &[harper_core::Token], _source: &[char]) -> usize {
        tokens.len()
    }
}

/// `IsNotTitleCase` is title-casing as a predicate (used by the proper-noun rules): it reports a
/// text exactly when title-casing would change it — in particular never a title-cased text.
fn test_pattern(text: &str, ctx: &mut CaseCtx) -> Result<(), String> {
    use harper_core::patterns::{IsNotTitleCase, Pattern};
    let dict = FstDictionary::curated();
    let reported = |t: &str| {
        let doc = Document::new(t, &PlainEnglish, &dict);
        !doc.get_tokens().is_empty() && IsNotTitleCase::new(Box::new(Everything), dict.clone()).matches(doc.get_tokens(), doc.get_source()) != 0
    };
    let titled = make_title_case_str(text, &PlainEnglish, &dict);
    let changes = titled != *text;
    ctx.class_if(text.chars().next().is_some_and(|c| c.is_lowercase() && !c.is_ascii()), "starts_with_non_ascii_lower_case_letter");
    if reported(text) != changes {
        return Err(format!(
            "IsNotTitleCase {} {text:?} although title-casing {} ({titled:?})",
            if changes { "does not report" } else { "reports" },
            if changes { "changes it" } else { "leaves it unchanged" }
        ));
    }
    if reported(&titled) {
        return Err(format!("IsNotTitleCase reports the title-cased text {titled:?} (from {text:?}) as not being title case"));
    }
    Ok(())
}

pub fn test_title(text: &String, ctx: &mut CaseCtx) -> Result<(), String> {
    test_pattern(text, ctx)?;
    ctx.class_if(text.contains('\n'), "has_line_break");
    ctx.class_if(text.ends_with('\n'), "ends_with_line_break");
    // the two entry points: the library function and the JavaScript-facing binding
    test_title_via(text, ctx, "make_title_case_str", &|t: &str| {
        make_title_case_str(t, &PlainEnglish, &FstDictionary::curated())
    })?;
    test_title_via(text, &mut CaseCtx::default(), "harper_wasm::to_title_case", &|t: &str| {
        harper_wasm::to_title_case(t.to_string())
    })
}

fn test_title_via(text: &String, ctx: &mut CaseCtx, via: &str, convert: &dyn Fn(&str) -> String) -> Result<(), String> {
    test_title_inner(text, ctx, convert).map_err(|e| format!("[{via}] {e}"))
}

fn test_title_inner(text: &String, ctx: &mut CaseCtx, convert: &dyn Fn(&str) -> String) -> Result<(), String> {
    let dict = FstDictionary::curated();
    let out = convert(text);
    let a: Vec<char> = text.chars().collect();
    let b: Vec<char> = out.chars().collect();
    let doc = Document::new(text, &PlainEnglish, &dict);
    let word_likes = doc.iter_word_likes().count();
    let has_small = text.split_whitespace().any(|w| {
        matches!(
            w.to_lowercase().as_str(),
            "a" | "an" | "the" | "of" | "in" | "on" | "and" | "but" | "for" | "or" | "nor" | "to" | "at" | "by"
        )
    });
    let has_proper = doc.iter_words().any(|t| t.kind.is_proper_noun());
    ctx.class_if(has_small, "has_small_word");
    ctx.class_if(has_proper, "has_proper_noun");
    ctx.class_if(!text.is_ascii(), "multibyte");
    if word_likes >= 3 && (has_small || has_proper) {
        ctx.nontrivial(text);
    }
    if a.len() != b.len() {
        return Err(format!(
            "length changed: {} chars in, {} chars out: {:?} -> {:?}",
            a.len(),
            b.len(),
            text,
            out
        ));
    }
    for (i, (x, y)) in a.iter().zip(&b).enumerate() {
        if x == y {
            continue;
        }
        let case_only = x.to_lowercase().eq(y.to_lowercase());
        if case_only {
            continue;
        }
        // curly apostrophe of a known proper noun normalised to '
        if is_apostrophe_variant(*x) && *y == '\'' {
            let tok = doc.get_tokens().iter().find(|t| t.span.start <= i && i < t.span.end);
            if tok.is_some_and(|t| t.kind.is_proper_noun()) {
                continue;
            }
        }
        return Err(format!(
            "char {i} changed other than in case: {x:?} -> {y:?} ({:?} -> {:?})",
            text, out
        ));
    }
    // first word-like token starts with an upper-case letter when it starts with an ASCII letter
    if let Some(first) = doc.iter_word_likes().next() {
        let c = a[first.span.start];
        if c.is_ascii_alphabetic() && !b[first.span.start].is_ascii_uppercase() {
            return Err(format!(
                "first word-like token does not start upper-case: {:?} -> {:?}",
                text, out
            ));
        }
    }
    let again = convert(&out);
    if again != out {
        return Err(format!(
            "not idempotent: {:?} -> {:?} -> {:?}",
            text, out, again
        ));
    }
    Ok(())
}

fn title_text() -> BoxedStrategy<String> {
    let proper = || {
        // proper nouns from the dictionary in wrong case
        let words: &'static Vec<String> = &g::harvest().dict_words;
        any::<u16>()
            .prop_map(move |s| {
                let dict = FstDictionary::curated();
                let n = words.len();
                let start = crate::core::pick_idx(s, n);
                for k in 0..2000 {
                    let w = &words[(start + k) % n];
                    let c: Vec<char> = w.chars().collect();
                    if dict
                        .get_word_metadata(&c)
                        .is_some_and(|m| m.is_proper_noun())
                    {
                        return w.clone();
                    }
                }
                "Boston".to_string()
            })
            .prop_flat_map(|w| {
                prop_oneof![
                    Just(w.to_lowercase()),
                    Just(w.to_uppercase()),
                    Just(w.replace('\'', "’")),
                    Just(w.to_lowercase().replace('\'', "‘")),
                    // typed with a full-width input method
                    Just(w.to_lowercase().chars().map(|c| if c.is_ascii_lowercase() { char::from_u32(c as u32 - 'a' as u32 + 0xFF41).unwrap_or(c) } else { c }).collect::<String>()),
                    Just(w.chars().map(|c| if c.is_ascii_lowercase() { char::from_u32(c as u32 - 'a' as u32 + 0xFF41).unwrap_or(c) } else if c.is_ascii_uppercase() { char::from_u32(c as u32 - 'A' as u32 + 0xFF21).unwrap_or(c) } else { c }).collect::<String>()),
                    Just(w),
                ]
            })
    };
    let word = prop_oneof![
        6 => g::plain_word(),
        3 => g::sel_str(&["a", "an", "the", "of", "in", "on", "and", "but", "for", "or", "nor", "to", "at", "by", "from", "with", "over", "into", "about", "THE", "Of", "AND"]),
        3 => proper(),
        2 => g::word_like(),
        2 => g::sel_str(&["os", "ss", "ms", "us", "1s", "0s", "A's", "ps", "x.com", "t.co", "et al.", "e.g.", "vs."]),
        2 => g::sel_str(&["élan", "über", "ßeta", "øre", "émigré", "ñandú", "ångström", "αβγ", "это", "ǆ", "ﬂow"]),
        1 => g::sel_str(&["ﬁsh", "İstanbul", "ıslak", "ǆ", "straße", "éclair", "😀", "o’clock", "rock-and-roll", "state-of-the-art", "3rd", "iPhone", "e.g.", "U.S.", "don’t", "it's"]),
    ];
    prop_oneof![
        6 => proptest::collection::vec((word, g::sel_str(&[" ", " ", " ", ", ", "-", ": ", " — ", "  ", ".", ". ", "'", "\t", " \t", "\t ", " \t \t"])), 1..9)
            .prop_map(|v| {
                let n = v.len();
                v.into_iter().enumerate().map(|(i, (w, s))| if i + 1 < n { w + &s } else { w }).collect::<String>()
            }),
        2 => g::paragraph(),
        1 => g::harvested_sentence(),
    ]
    // a paragraph may be wrapped over several lines and end with a line break
    .prop_flat_map(|t| {
        prop_oneof![
            6 => Just(t.clone()),
            1 => Just(format!("{t}\n")),
            1 => Just(format!("{t}\r\n")),
            1 => Just(t.replacen(' ', "\n", 1)),
            1 => Just(t.replacen(' ', "\r\n", 1)),
            // blank runs of several whitespace tokens around the title
            1 => Just(format!("{t} \t")),
            1 => Just(format!("{t}\t \t ")),
            1 => Just(format!(" \t{t}  \t \t")),
        ]
    })
    .boxed()
}

/// Title-casing through another front-end: the tokens of a Markdown heading / quote / list item /
/// emphasis cover exactly the plain title, so the result must equal title-casing the plain title
/// (same characters, only case changes). Also checks `make_title_case` on a mid-document token
/// sub-slice, as the IsNotTitleCase pattern calls it.
pub fn test_markdown_equivalence(c: &(String, u8), ctx: &mut CaseCtx) -> Result<(), String> {
    use harper_core::parsers::{Markdown, MarkdownOptions, Parser};
    let (title, wrap) = c;
    let dict = FstDictionary::curated();
    let plain = make_title_case_str(title, &PlainEnglish, &dict);
    let (pre, post) = match wrap % 6 {
        0 => ("# ", ""),
        1 => ("> ", ""),
        2 => ("- ", ""),
        3 => ("**", "**"),
        4 => ("## ", "\n"),
        _ => ("Intro paragraph here.\n\n### ", ""),
    };
    let md = format!("{pre}{title}{post}");
    let chars: Vec<char> = md.chars().collect();
    let parser = Markdown::new(MarkdownOptions::default());
    let doc = Document::new(&md, &parser, &dict);
    // the tokens that lie inside the title
    let start = pre.chars().count();
    let end = start + title.chars().count();
    let toks: Vec<harper_core::Token> = doc
        .get_tokens()
        .iter()
        .filter(|t| t.span.start >= start && t.span.end <= end && t.span.start < t.span.end)
        .cloned()
        .collect();
    let plain_doc = Document::new(title, &PlainEnglish, &dict);
    let same_tokens = toks.len() == plain_doc.get_tokens().len()
        && toks.first().is_some_and(|t| t.span.start == start)
        && toks.last().is_some_and(|t| t.span.end == end);
    if !same_tokens {
        ctx.class("markdown_tokenizes_differently");
        return Ok(());
    }
    ctx.class(format!("wrap:{}", wrap % 6));
    if title.split_whitespace().count() >= 3 {
        ctx.nontrivial(c);
    }
    let got: String = harper_core::make_title_case(&toks, &chars, &dict).into_iter().collect();
    if got != plain {
        return Err(format!(
            "title-casing the tokens of {:?} inside the Markdown document {:?} gives {:?}; title-casing the same text as plain English gives {:?}",
            title, md, got, plain
        ));
    }
    let _ = parser.parse(&chars);
    Ok(())
}

pub fn run(run: &mut Run) {
    run.rule = "the predicate form IsNotTitleCase must report a text exactly when title-casing changes it and never a title-cased text; both entry points (make_title_case_str and the JavaScript-facing harper_wasm::to_title_case) on single-paragraph texts, 1 in 3 wrapped over two lines (LF / CRLF) or ending with a line break: 1-8 words drawn from dictionary words, short prepositions/articles/conjunctions, dictionary proper nouns in wrong case / with curly apostrophes, special words (ligatures, Turkish İ/ı, astral, hyphenated, contractions, numbers) with varied separators; plus G-TEXT paragraphs and harvested sentences; through make_title_case_str(PlainEnglish, curated). Non-trivial = >=3 word-like tokens incl. a small word or a proper noun; distinct by text.".into();
    let n = run.n(50_000, 3_000_000);
    run.prop("title_case", n, title_text, test_title);
    run.require_class("title_case", "has_small_word", (n / 10) as u64);
    run.require_class("title_case", "has_proper_noun", (n / 10) as u64);
    run.require_class("title_case", "has_line_break", (n / 20) as u64);
    run.require_class("title_case", "starts_with_non_ascii_lower_case_letter", (n / 100) as u64);
    run.require_class("title_case", "ends_with_line_break", (n / 40) as u64);

    let n = run.n(20_000, 500_000);
    run.prop(
        "markdown_title_equals_plain_title",
        n,
        || {
            (title_text(), 0u8..6)
                .prop_map(|(t, w)| {
                    // keep to characters Markdown does not interpret
                    let t: String = t
                        .chars()
                        .filter(|c| c.is_alphanumeric() || matches!(c, ' ' | ',' | '.' | '\'' | '’' | '-' | ':'))
                        .collect();
                    (t.trim().to_string(), w)
                })
                .prop_filter("non-empty", |(t, _)| !t.is_empty() && t.chars().next().is_some_and(|c| c.is_alphabetic()))
                .boxed()
        },
        test_markdown_equivalence,
    );
    run.require_class("markdown_title_equals_plain_title", "wrap:0", (n / 20) as u64);
    run.require_class("markdown_title_equals_plain_title", "wrap:5", (n / 20) as u64);
}

pub fn replay(check: &str, case: Value, _run: &mut Run) -> Result<(), String> {
    if check == "markdown_title_equals_plain_title" {
        let c: (String, u8) = serde_json::from_value(case).map_err(|e| e.to_string())?;
        let mut ctx = CaseCtx::default();
        return test_markdown_equivalence(&c, &mut ctx);
    }
    let c: String = serde_json::from_value(case).map_err(|e| e.to_string())?;
    let mut ctx = CaseCtx::default();
    test_title(&c, &mut ctx)
}
