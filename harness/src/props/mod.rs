pub mod c03;
pub mod c13;
pub mod c17;

use serde_json::Value;

use crate::core::Run;

pub fn dispatch_run(id: &str, run: &mut Run) -> bool {
    match id {
        "C03" => c03::run_edit_primitive(run),
        "C13" => c13::run(run),
        "C17" => c17::run(run),
        _ => return false,
    }
    true
}

pub fn dispatch_replay(id: &str, check: &str, case: Value, run: &mut Run) -> Result<(), String> {
    match id {
        "C03" => c03::replay_edit(case),
        "C13" => c13::replay(check, case, run),
        "C17" => c17::replay(check, case, run),
        _ => Err(format!("unknown property {id}")),
    }
}

pub fn worker_main(_args: &[String]) -> i32 {
    2
}
