pub mod c01;
pub mod c01_scaling;
pub mod c02;
pub mod c03;
pub mod c04;
pub mod c05;
pub mod c06;
pub mod c07;
pub mod c08;
pub mod c09;
pub mod c10;
pub mod c11;
pub mod c12;
pub mod c13;
pub mod c14;
pub mod c15;
pub mod c16;
pub mod c17;
pub mod c18;
pub mod c19;
pub mod docsweep;

use serde_json::Value;

use crate::core::Run;

pub fn dispatch_run(id: &str, run: &mut Run) -> bool {
    match id {
        "C01" => c01::run(run),
        "C02" => c02::run(run),
        "C03" => c03::run(run),
        "C04" => c04::run(run),
        "C05" => c05::run(run),
        "C06" => c06::run(run),
        "C07" => c07::run(run),
        "C08" => c08::run(run),
        "C09" => c09::run(run),
        "C10" => c10::run(run),
        "C11" => c11::run(run),
        "C12" => c12::run(run),
        "C13" => c13::run(run),
        "C18" => c18::run(run),
        "C19" => c19::run(run),
        "C14" => c14::run(run),
        "C15" => c15::run(run),
        "C16" => c16::run(run),
        "C17" => c17::run(run),
        _ => return false,
    }
    true
}

pub fn dispatch_replay(id: &str, check: &str, case: Value, run: &mut Run) -> Result<(), String> {
    if let Some(target) = check.strip_prefix("fuzz_") {
        let hex = case["bytes_hex"].as_str().unwrap_or("");
        let bytes: Vec<u8> = (0..hex.len() / 2).filter_map(|i| u8::from_str_radix(&hex[2 * i..2 * i + 2], 16).ok()).collect();
        return crate::fuzzing::replay(target, &bytes);
    }
    match id {
        "C01" => c01::replay(check, case, run),
        "C02" => c02::replay(check, case, run),
        "C03" => c03::replay(check, case, run),
        "C04" => c04::replay(check, case, run),
        "C05" => c05::replay(check, case, run),
        "C06" => c06::replay(check, case, run),
        "C07" => c07::replay(check, case, run),
        "C08" => c08::replay(check, case, run),
        "C09" => c09::replay(check, case, run),
        "C10" => c10::replay(check, case, run),
        "C11" => c11::replay(check, case, run),
        "C12" => c12::replay(check, case, run),
        "C13" => c13::replay(check, case, run),
        "C18" => c18::replay(check, case, run),
        "C19" => c19::replay(check, case, run),
        "C14" => c14::replay(check, case, run),
        "C15" => c15::replay(check, case, run),
        "C16" => c16::replay(check, case, run),
        "C17" => c17::replay(check, case, run),
        _ => Err(format!("unknown property {id}")),
    }
}

/// Exploration aid (not a registered command): run N generated documents through the oracle of
/// C01/C02/C03 without stopping at the first failure; print failures grouped by signature with
/// the smallest witness of each group.
pub fn survey(id: &str, n: usize, seed: u64) -> i32 {
    use proptest::strategy::{Strategy, ValueTree};
    use proptest::test_runner::{Config, RngSeed, TestRunner};
    use std::collections::BTreeMap;
    use std::sync::Mutex;
    let groups: Mutex<BTreeMap<String, (usize, docsweep::DocCase, String)>> = Mutex::new(BTreeMap::new());
    std::thread::scope(|sc| {
        for shard in 0..16u64 {
            let groups = &groups;
            std::thread::Builder::new().stack_size(8 << 20).spawn_scoped(sc, move || {
                let strat = docsweep::doc_case_strategy();
                let mut r = TestRunner::new(Config { rng_seed: RngSeed::Fixed(crate::core::mix(seed, shard)), ..Config::default() });
                for _ in 0..n / 16 {
                    let c = strat.new_tree(&mut r).unwrap().current();
                    let mut ctx = crate::core::CaseCtx::default();
                    let res = crate::core::catch(|| match id {
                        "C01" => c01::test_case(&c, &mut ctx),
                        "C02" => c02::test_case_mode(&c, &mut ctx, std::env::var("HV_STRICT_SURVEY").is_ok()),
                        _ => c03::test_doc_case(&c, &mut ctx),
                    });
                    let msg = match res { Ok(Ok(())) => continue, Ok(Err(m)) => m, Err(p) => format!("harness panic {}", p.site()) };
                    let sig: String = msg.chars().filter(|ch| !ch.is_ascii_digit()).take(90).collect();
                    let sig = format!("{} | {}", c.fe.lang, sig.split('|').next().unwrap_or(""));
                    let mut g = groups.lock().unwrap();
                    let e = g.entry(sig).or_insert((0, c.clone(), msg.clone()));
                    e.0 += 1;
                    if c.text.len() < e.1.text.len() { e.1 = c.clone(); e.2 = msg; }
                }
            }).unwrap();
        }
    });
    for (sig, (count, case, msg)) in groups.into_inner().unwrap() {
        let path = format!("/verif/replays/survey-{}-{:016x}.json", id, crate::core::h64(&sig));
        let _ = std::fs::write(&path, serde_json::json!({"property": id, "check": if id == "C03" { "document_lints" } else { "generated_documents" }, "case": case, "observed": msg}).to_string());
        println!("   replay: {path}");
        println!("== {count}x {sig}\n   {}\n   {} {:?}", crate::core::truncate(&msg, 300), case.fe.label(), crate::core::truncate(&case.text, 200));
    }
    0
}

pub fn worker_main(args: &[String]) -> i32 {
    if args.len() >= 3 && args[0] == "fuzz-seeds" {
        let n = crate::fuzzing::write_seeds(&args[1], std::path::Path::new(&args[2]));
        println!("{n} seeds");
        return 0;
    }
    if args.len() >= 3 && args[0] == "c10-lib" {
        println!("{}", c10::library_worker(args[1].parse().unwrap_or(0), args[2].parse().unwrap_or(10)));
        return 0;
    }
    if args.len() >= 3 && args[0] == "c05-batch" {
        print!("{}", c05::process_batch(args[1].parse().unwrap_or(0), args[2].parse().unwrap_or(10)));
        return 0;
    }
    if !args.is_empty() && args[0] == "bench-new-curated" {
        let t0 = std::time::Instant::now();
        for _ in 0..20 {
            let g = harper_core::linting::LintGroup::new_curated(harper_core::FstDictionary::curated(), harper_core::Dialect::American);
            std::hint::black_box(&g);
        }
        println!("LintGroup::new_curated: {:?} each", t0.elapsed() / 20);
        return 0;
    }
    if !args.is_empty() && args[0] == "c06-list" {
        c06::list_flagged_entries();
        return 0;
    }
    if args.len() >= 3 && args[0] == "survey" {
        return survey(&args[1], args[2].parse().unwrap_or(1000), args.get(3).and_then(|s| s.parse().ok()).unwrap_or(0));
    }
    2
}
