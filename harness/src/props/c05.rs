//! C05 — lint results depend only on text, language, dictionary and configuration.

use std::sync::Arc;

use harper_core::linting::{Lint, LintGroup, Linter};
use harper_core::{Dictionary, Document, FstDictionary, Lrc};
use proptest::prelude::*;
use serde::{Deserialize, Serialize};
use serde_json::Value;

use crate::core::{CaseCtx, Run};
use crate::frontends::Frontend;
use crate::generators::{self as g, ConfigSpec, DIALECTS};

pub const LANGS: [&str; 5] = ["plaintext", "markdown", "typst", "html", "rust"];

#[derive(Debug, Clone, Serialize, Deserialize, PartialEq, Eq, Hash)]
pub enum Op {
    SetConfig(ConfigSpec),
    /// flip one rule that fires on one of the clauses (so that the toggle matters for cached clauses)
    ToggleFiring { clause: u8, which: u16 },
    /// lint pool document `doc` in language LANGS[lang]
    Lint { doc: u16, lang: u8 },
    /// what an editor does when a fix is applied: lint a clause (behind `LEADS[lead]`, so that the
    /// difference lies 0 / 70 / 140 / 300 characters into the clause), then a copy with one
    /// same-length edit near its end, then the first text again
    LintEdited { clause: u8, edit: u8, lead: u8, lang: u8 },
}

#[derive(Debug, Clone, Serialize, Deserialize, PartialEq, Eq, Hash)]
pub struct SeqCase {
    pub clauses: Vec<String>,
    pub ops: Vec<Op>,
    pub dialect: u8,
}

/// Documents in which the same clause characters recur: alone, at other offsets, at the end vs
/// the middle, inside Markdown emphasis, inside a comment.
pub fn pool(clauses: &[String]) -> Vec<String> {
    let mut out = vec![];
    for (i, c) in clauses.iter().enumerate() {
        out.push(c.clone());
        out.push(format!("Well, {c}"));
        out.push(format!("**{c}**"));
        out.push(format!("// {c}"));
        out.push(format!("{c}\n\n{c}"));
        // the same clause characters behind different neighbours (a rule must not look across
        // the clause boundary, or the cache key misses what it looked at)
        for p in ["!", "?", ".", ";", ",", ":", " <!", "("] {
            out.push(format!("Stop{p}{c}"));
        }
        out.push(format!("{c}>"));
        out.push(format!("{c}!Go on"));
        for (j, d) in clauses.iter().enumerate() {
            if i != j {
                out.push(format!("{c} {d}"));
                out.push(format!("{d}, {c}"));
                out.push(format!("{c}\n\n{d}"));
            }
        }
    }
    if out.is_empty() {
        out.push(String::new());
    }
    out
}

/// comma-free lower-case stretches without a sentence end: the clause that follows stays in one chunk
pub const LEADS: [&str; 4] = [
    "",
    "when the old grey cat that lived behind the barn came back home again ",
    "when the old grey cat that lived behind the barn came back home again after so many long and quiet winter nights out in the hills we all saw that ",
    "when the old grey cat that lived behind the barn came back home again after so many long and quiet winter nights out in the hills and when the rain had at last stopped and the river had gone back to where it used to be and the road to the next village was open once more and the first carts came through we all saw that ",
];

const SWAPS: &[(&str, &str)] = &[("worst", "worse"), ("worse", "worst"), ("then", "than"), ("than", "then"), ("their", "there"), ("there", "their"), ("aloud", "alowd"), ("whole", "whale"), ("want", "went"), ("wide", "wade")];

fn flip_first(w: &str) -> String {
    let mut cs: Vec<char> = w.chars().collect();
    if let Some(c) = cs.first_mut() {
        if c.is_ascii_lowercase() {
            *c = c.to_ascii_uppercase();
        } else if c.is_ascii_uppercase() {
            *c = c.to_ascii_lowercase();
        }
    }
    cs.into_iter().collect()
}

/// one edit that keeps the length and the token boundaries: a same-length word swapped in, or the
/// first letter of the last one / two words re-cased
pub fn edited(text: &str, edit: u8) -> String {
    if edit % 3 == 1 {
        let mut best: Option<(usize, &str, &str)> = None;
        for (a, b) in SWAPS {
            if let Some(i) = text.rfind(a) {
                let before_ok = text[..i].chars().next_back().map_or(true, |c| !c.is_alphanumeric());
                let after_ok = text[i + a.len()..].chars().next().map_or(true, |c| !c.is_alphanumeric());
                if before_ok && after_ok && best.map_or(true, |(j, _, _)| i > j) {
                    best = Some((i, a, b));
                }
            }
        }
        if let Some((i, a, b)) = best {
            return format!("{}{}{}", &text[..i], b, &text[i + a.len()..]);
        }
    }
    // re-case the last one (edit % 3 == 0 or no swap possible) or two (== 2) ASCII words
    let mut spans: Vec<(usize, usize)> = vec![];
    let mut start = None;
    for (i, c) in text.char_indices() {
        if c.is_ascii_alphabetic() {
            start.get_or_insert(i);
        } else if let Some(s) = start.take() {
            spans.push((s, i));
        }
    }
    if let Some(s) = start {
        spans.push((s, text.len()));
    }
    let k = if edit % 3 == 2 { 2 } else { 1 };
    let mut out = text.to_string();
    for &(a, b) in spans.iter().rev().take(k) {
        out = format!("{}{}{}", &out[..a], flip_first(&out[a..b]), &out[b..]);
    }
    out
}

const LATE_RULE_CLAUSES: &[&str] = &["It is worst than before", "He was aloud to go", "The whole entire thing broke", "It took a turn for the worst", "It was trail and error", "I want be there", "It is wide spread", "We are world wide"];

/// rules (configuration keys) that produce a lint on `clause` when enabled alone; cached per process
pub fn firing_rules(clause: &str) -> Vec<String> {
    use std::collections::HashMap;
    use std::sync::{Mutex, OnceLock};
    static CACHE: OnceLock<Mutex<HashMap<String, Vec<String>>>> = OnceLock::new();
    let cache = CACHE.get_or_init(|| Mutex::new(HashMap::new()));
    if let Some(v) = cache.lock().unwrap().get(clause) {
        return v.clone();
    }
    let dict = FstDictionary::curated();
    let doc = Document::new(clause, &harper_core::parsers::PlainEnglish, &dict);
    if LATE_RULE_CLAUSES.contains(&clause) {
        // one linter per rule: a helper that re-used one linter would inherit any caching defect
        // of the code under test and never see these rules fire
        let keys = &g::harvest().rule_keys;
        let found: Mutex<Vec<String>> = Mutex::new(vec![]);
        std::thread::scope(|sc| {
            for chunk in keys.chunks(keys.len().div_ceil(8).max(1)) {
                let (found, doc, dict) = (&found, &doc, &dict);
                sc.spawn(move || {
                    for k in chunk {
                        let mut group = LintGroup::new_curated(dict.clone(), DIALECTS[0]).with_lint_config(ConfigSpec::only(&[k.as_str()]).build());
                        if crate::core::catch(std::panic::AssertUnwindSafe(|| !group.lint(doc).is_empty())).unwrap_or(false) {
                            found.lock().unwrap().push(k.clone());
                        }
                    }
                });
            }
        });
        let mut out = found.into_inner().unwrap();
        out.sort();
        cache.lock().unwrap().insert(clause.to_string(), out.clone());
        return out;
    }
    let mut group = LintGroup::new_curated(dict, DIALECTS[0]);
    let mut out = vec![];
    for k in &g::harvest().rule_keys {
        group.config = ConfigSpec::only(&[k.as_str()]).build();
        if crate::core::catch(|| !group.lint(&doc).is_empty()).unwrap_or(false) {
            out.push(k.clone());
        }
    }
    cache.lock().unwrap().insert(clause.to_string(), out.clone());
    out
}

fn make_doc(text: &str, lang: &str) -> Option<(Document, Arc<dyn Dictionary>)> {
    let source: Vec<char> = text.chars().collect();
    let (parser, dict) = Frontend::of(lang).build(&source)?;
    Some((Document::new_from_vec(Lrc::new(source), &parser, &dict), dict))
}

fn render(l: &[Lint]) -> String {
    serde_json::to_string(l).unwrap_or_default()
}

/// set of clause (chunk) strings of a document, to measure cache-key recurrence
fn chunk_keys(doc: &Document) -> Vec<String> {
    use harper_core::TokenStringExt;
    doc.iter_chunks()
        .filter_map(|c| c.span())
        .map(|s| doc.get_span_content_str(&s))
        .collect()
}

pub fn test_sequence(c: &SeqCase, ctx: &mut CaseCtx) -> Result<(), String> {
    let docs = pool(&c.clauses);
    let dialect = DIALECTS[c.dialect as usize % 4];
    let dict = FstDictionary::curated();
    let mut current = ConfigSpec::curated();
    let mut long_lived = LintGroup::new_curated(dict.clone(), dialect).with_lint_config(current.build());
    let mut seen_chunks: std::collections::HashMap<String, (u8, u64)> = Default::default();
    let mut cfg_version = 0u64;
    let mut hit_after_change = false;
    let mut hit_other_lang = false;
    let mut toggled_firing = false;
    for (step, op) in c.ops.iter().enumerate() {
        match op {
            Op::SetConfig(spec) => {
                current = spec.clone();
                long_lived.config = current.build();
                cfg_version += 1;
            }
            Op::ToggleFiring { clause, which } => {
                if c.clauses.is_empty() {
                    continue;
                }
                let cl = &c.clauses[*clause as usize % c.clauses.len()];
                let rules = firing_rules(cl);
                if rules.is_empty() {
                    continue;
                }
                let key = rules[crate::core::pick_idx(*which, rules.len())].clone();
                let now = current.build().is_rule_enabled(&key);
                current.overlay.push((key, Some(!now)));
                long_lived.config = current.build();
                cfg_version += 1;
                toggled_firing = true;
            }
            Op::Lint { .. } | Op::LintEdited { .. } => {
              let (texts, lang): (Vec<String>, &u8) = match op {
                  Op::Lint { doc, lang } => (vec![docs[crate::core::pick_idx(*doc, docs.len())].clone()], lang),
                  Op::LintEdited { clause, edit, lead, lang } => {
                      if c.clauses.is_empty() {
                          continue;
                      }
                      let first = format!("{}{}", LEADS[*lead as usize % LEADS.len()], c.clauses[*clause as usize % c.clauses.len()]);
                      let second = edited(&first, *edit);
                      ctx.class("edited_twin");
                      ctx.class_if(*lead as usize % LEADS.len() >= 2, "edited_twin_differs_after_130_chars");
                      (vec![first.clone(), second, first], lang)
                  }
                  _ => unreachable!(),
              };
              let mut fresh_results: Vec<String> = vec![];
              for text in &texts {
                let lang_name = LANGS[*lang as usize % LANGS.len()];
                let Some((document, _)) = make_doc(text, lang_name) else {
                    continue;
                };
                for k in chunk_keys(&document) {
                    if let Some((l, v)) = seen_chunks.get(&k) {
                        hit_after_change |= *v != cfg_version;
                        hit_other_lang |= *l != *lang;
                    }
                    seen_chunks.insert(k, (*lang, cfg_version));
                }
                let reused = match crate::core::catch(|| long_lived.lint(&document)) {
                    Ok(l) => l,
                    Err(_) => {
                        // C01's business; the group may be inconsistent now: start over
                        ctx.class("skipped_c01_panic");
                        return Ok(());
                    }
                };
                let mut fresh_group =
                    LintGroup::new_curated(dict.clone(), dialect).with_lint_config(current.build());
                let fresh = fresh_group.lint(&document);
                if reused != fresh {
                    return Err(format!(
                        "step {step}: long-lived linter and fresh linter disagree on {:?} as {lang_name}: reused gives {} lints {}, fresh gives {} lints {}",
                        text,
                        reused.len(),
                        crate::core::truncate(&render(&reused), 300),
                        fresh.len(),
                        crate::core::truncate(&render(&fresh), 300)
                    ));
                }
                fresh_results.push(format!("{:?}", fresh.iter().map(|l| (l.span, l.message.clone())).collect::<Vec<_>>()));
              }
              if fresh_results.len() == 3 && fresh_results[0] != fresh_results[1] {
                  ctx.class("edited_twin_changes_the_result");
                  ctx.class_if(texts[0].chars().count() > 140 && texts[0].len() == texts[1].len(), "edited_twin_changes_the_result_after_130_chars");
              }
            }
        }
    }
    ctx.class_if(hit_after_change, "cache_hit_after_config_change");
    ctx.class_if(toggled_firing && hit_after_change, "firing_rule_toggled_between_hits");
    ctx.class_if(hit_other_lang, "cache_hit_in_other_language");
    if hit_after_change || hit_other_lang {
        ctx.nontrivial(c);
    }
    Ok(())
}

fn clause() -> BoxedStrategy<String> {
    prop_oneof![
        4 => g::harvested_sentence().prop_map(|s| s.replace('\n', " ")),
        2 => g::mutated_sentence().prop_map(|s| s.replace('\n', " ")),
        2 => g::word_sentence().prop_map(|s| s.replace('\n', " ")),
        // rules from the end of the alphabetical rule list (positions in packed or truncated digests)
        1 => g::sel_str(LATE_RULE_CLAUSES),
        // clauses whose lints depend on one word's capitalisation or on one same-length word
        1 => g::sel_str(&["we went around the united states by train", "she moved to new york last year", "it is worst than before", "this one is better then mine", "we met in south america in may"]),
        1 => g::sel_str(&["--and then it rained", "-- draft --> out.", "---so what", "'s the day", ") an apple", "-ish then"]),
        1 => g::sel_str(&["I could **of** done it", "their *is* an `apple`", "the the _cat_", "an [apple](x) a day", "# teh heading", "he said \"an apple\" <b>teh</b>", "#let x = [teh]", "1. could of"]),
    ]
    .boxed()
}

pub fn seq_strategy(max_ops: usize) -> BoxedStrategy<SeqCase> {
    (
        proptest::collection::vec(clause(), 1..4),
        proptest::collection::vec(
            prop_oneof![
                1 => g::config_spec().prop_map(Op::SetConfig),
                2 => (any::<u8>(), any::<u16>()).prop_map(|(clause, which)| Op::ToggleFiring { clause, which }),
                6 => (any::<u16>(), 0u8..5).prop_map(|(doc, lang)| Op::Lint { doc, lang }),
                1 => (any::<u8>(), any::<u8>(), 0u8..4, 0u8..5).prop_map(|(clause, edit, lead, lang)| Op::LintEdited { clause, edit, lead, lang }),
            ],
            1..max_ops,
        ),
        0u8..4,
    )
        .prop_map(|(clauses, ops, dialect)| SeqCase {
            clauses,
            ops,
            dialect,
        })
        .boxed()
}

// ------------------------------------------------------------------------------------------------
// threads and processes

#[derive(Debug, Clone, Serialize, Deserialize, PartialEq, Eq, Hash)]
pub struct BatchCase {
    pub items: Vec<(String, u8, ConfigSpec)>,
}

fn lint_item(group: &mut LintGroup, text: &str, lang: u8, cfg: &ConfigSpec) -> String {
    group.config = cfg.build();
    match make_doc(text, LANGS[lang as usize % LANGS.len()]) {
        Some((d, _)) => render(&group.lint(&d)),
        None => String::new(),
    }
}

pub fn test_threads(c: &BatchCase, ctx: &mut CaseCtx) -> Result<(), String> {
    let dict = FstDictionary::curated();
    let sequential: Vec<String> = {
        let mut g = LintGroup::new_curated(dict.clone(), DIALECTS[0]);
        match crate::core::catch(|| {
            c.items
                .iter()
                .map(|(t, l, cfg)| lint_item(&mut g, t, *l, cfg))
                .collect::<Vec<_>>()
        }) {
            Ok(v) => v,
            Err(_) => {
                ctx.class("skipped_c01_panic");
                return Ok(());
            }
        }
    };
    // 8 threads, each with its own linter, each linting the whole batch in a rotated order
    let results: Vec<Vec<(usize, String)>> = std::thread::scope(|sc| {
        let hs: Vec<_> = (0..8usize)
            .map(|t| {
                let items = &c.items;
                let dict = dict.clone();
                sc.spawn(move || {
                    let mut g = LintGroup::new_curated(dict, DIALECTS[0]);
                    let n = items.len();
                    (0..n)
                        .map(|k| {
                            let i = (k + t * 3) % n;
                            let (text, l, cfg) = &items[i];
                            (i, lint_item(&mut g, text, *l, cfg))
                        })
                        .collect::<Vec<_>>()
                })
            })
            .collect();
        hs.into_iter().map(|h| h.join().unwrap_or_default()).collect()
    });
    // one linter moved across threads
    let moved: Vec<String> = {
        let mut g = LintGroup::new_curated(dict.clone(), DIALECTS[0]);
        let mut out = vec![];
        for (t, l, cfg) in &c.items {
            let (g2, s) = std::thread::scope(|sc| {
                sc.spawn(move || {
                    let s = lint_item(&mut g, t, *l, cfg);
                    (g, s)
                })
                .join()
                .expect("moved linter thread")
            });
            g = g2;
            out.push(s);
        }
        out
    };
    ctx.class_if(sequential.iter().any(|s| s.len() > 2), "has_lints");
    if c.items.len() >= 3 {
        ctx.nontrivial(c);
    }
    for (t, r) in results.iter().enumerate() {
        for (i, s) in r {
            if *s != sequential[*i] {
                return Err(format!(
                    "thread {t} got a different result for item {i} ({:?}) than the sequential run",
                    c.items[*i].0
                ));
            }
        }
    }
    if moved != sequential {
        return Err("a linter moved across threads produced different results".to_string());
    }
    Ok(())
}

/// child process body: lint a seed-determined batch and print the serialised results
pub fn process_batch(seed: u64, n: usize) -> String {
    use proptest::strategy::ValueTree;
    use proptest::test_runner::{Config, RngSeed, TestRunner};
    let mut r = TestRunner::new(Config {
        rng_seed: RngSeed::Fixed(seed),
        ..Config::default()
    });
    let strat = (g::text(), 0u8..5, g::config_spec());
    let dict = FstDictionary::curated();
    let mut group = LintGroup::new_curated(dict, DIALECTS[0]);
    let mut out = String::new();
    for _ in 0..n {
        let (t, l, cfg) = strat.new_tree(&mut r).unwrap().current();
        let s = crate::core::catch(|| lint_item(&mut group, &t, l, &cfg)).unwrap_or_else(|_| "PANIC".into());
        out.push_str(&s);
        out.push('\n');
    }
    out
}

fn run_processes(run: &mut Run) {
    let n = run.n(300, 5000) as usize;
    let seed = crate::core::mix(run.seed, 0xC05);
    let exe = std::env::current_exe().expect("exe");
    let mut outs = vec![];
    for _ in 0..2 {
        let o = std::process::Command::new(&exe)
            .args(["worker", "c05-batch", &seed.to_string(), &n.to_string()])
            .env("HV_CHILD", "1")
            .output();
        match o {
            Ok(o) if o.status.success() => outs.push(o.stdout),
            _ => {
                run.infra_problems.push("c05 process worker failed".into());
                return;
            }
        }
    }
    let mut st = crate::core::CheckStats::new("two_processes");
    st.evaluations = n as u64;
    let lines: Vec<&[u8]> = outs[0].split(|b| *b == b'\n').collect();
    for l in &lines {
        if l.len() > 2 {
            st.nontrivial.insert(crate::core::h64(*l));
        }
    }
    st.samples.push(serde_json::json!({"batch_seed": seed, "items": n, "first_result": String::from_utf8_lossy(lines.first().copied().unwrap_or(b"")).chars().take(200).collect::<String>()}));
    run.add_stats(st);
    if outs[0] != outs[1] {
        let other: Vec<&[u8]> = outs[1].split(|b| *b == b'\n').collect();
        let i = lines.iter().zip(&other).position(|(a, b)| a != b).unwrap_or(0);
        run.fail(
            "two_processes",
            serde_json::json!({"batch_seed": seed, "items": n, "first_differing_item": i}),
            format!("two fresh processes produced different lints for item {i} of the same batch"),
        );
    }
}

/// Two dictionary contents as harper-ls would load them from its word-list files one after the
/// other, and a text that uses the words.
#[derive(Debug, Clone, Serialize, Deserialize, PartialEq, Eq, Hash)]
pub struct DictPair {
    pub before: Vec<String>,
    pub after: Vec<String>,
    pub text: String,
}

fn merged_with(words: &[String]) -> harper_core::MergedDictionary {
    use harper_core::{MergedDictionary, MutableDictionary, WordMetadata};
    let mut user = MutableDictionary::new();
    user.extend_words(words.iter().map(|w| (w.chars().collect::<Vec<char>>(), WordMetadata::default())));
    let mut m = MergedDictionary::new();
    m.add_dictionary(FstDictionary::curated());
    m.add_dictionary(Arc::new(user));
    m
}

/// The long-lived server keeps its linter (and the dictionary inside it) for as long as the newly
/// loaded dictionary compares equal to the one it has (backend.rs:update_document). Whenever two
/// dictionaries compare equal, linting with either must therefore give the same result.
pub fn test_dict_pair(c: &DictPair, ctx: &mut CaseCtx) -> Result<(), String> {
    let a = Arc::new(merged_with(&c.before));
    let b = Arc::new(merged_with(&c.after));
    let same_words = {
        let mut x = c.before.clone();
        let mut y = c.after.clone();
        x.sort();
        x.dedup();
        y.sort();
        y.dedup();
        x == y
    };
    if same_words {
        ctx.class("same_word_set");
    } else if c.before.iter().map(|w| w.to_lowercase()).collect::<std::collections::BTreeSet<_>>()
        == c.after.iter().map(|w| w.to_lowercase()).collect::<std::collections::BTreeSet<_>>()
    {
        ctx.class("differ_in_capitalisation_only");
    } else {
        ctx.class("differ_in_words");
    }
    let source: Vec<char> = c.text.chars().collect();
    // whatever this thread parsed and linted before (the first dictionary), the result with the
    // second dictionary equals the result a thread that never did anything else gets
    {
        let lint_b = |d: Arc<harper_core::MergedDictionary>, src: Vec<char>| {
            let doc = Document::new_from_vec(Lrc::new(src), &harper_core::parsers::PlainEnglish, &d);
            LintGroup::new_curated(d.clone(), DIALECTS[0]).lint(&doc)
        };
        let doc_a = Document::new_from_vec(Lrc::new(source.clone()), &harper_core::parsers::PlainEnglish, &a);
        std::hint::black_box(&doc_a);
        let here = {
            let doc = Document::new_from_vec(Lrc::new(source.clone()), &harper_core::parsers::PlainEnglish, &b);
            // (no curated group is built in between: building one parses with another dictionary)
            let mut spell = harper_core::linting::SpellCheck::new(b.clone(), DIALECTS[0]);
            spell.lint(&doc)
        };
        let (b2, src2) = (b.clone(), source.clone());
        let elsewhere = std::thread::spawn(move || {
            let doc = Document::new_from_vec(Lrc::new(src2), &harper_core::parsers::PlainEnglish, &b2);
            let mut spell = harper_core::linting::SpellCheck::new(b2.clone(), DIALECTS[0]);
            spell.lint(&doc)
        })
        .join()
        .map_err(|_| "panic in a fresh thread".to_string())?;
        let _ = lint_b;
        ctx.class("second_dictionary_after_first_on_one_thread");
        {
            use harper_core::Dictionary;
            ctx.class_if(a.word_count() == b.word_count() && !same_words && here.len() < c.text.split(' ').count(), "two_dictionaries_of_one_size_with_other_words");
        }
        if here != elsewhere {
            return Err(format!(
                "a thread that first parsed {:?} with dictionary {:?} and then with {:?} reports {} for the second; a fresh thread reports {}",
                c.text, c.before, c.after, render(&here), render(&elsewhere)
            ));
        }
    }
    if *a != *b {
        ctx.class("compared_unequal_linter_rebuilt");
        return Ok(());
    }
    ctx.class("compared_equal_linter_kept");
    ctx.nontrivial(c);
    let lint_with = |d: Arc<harper_core::MergedDictionary>| {
        let doc = Document::new_from_vec(Lrc::new(source.clone()), &harper_core::parsers::PlainEnglish, &d);
        LintGroup::new_curated(d.clone(), DIALECTS[0]).lint(&doc)
    };
    let la = lint_with(a);
    let lb = lint_with(b);
    if la != lb {
        return Err(format!(
            "dictionaries {:?} and {:?} compare equal (so a running server keeps the linter built on the first), but linting {:?} gives {} with the first and {} with the second",
            c.before, c.after, c.text, render(&la), render(&lb)
        ));
    }
    Ok(())
}

fn recase(w: &str, how: u8) -> String {
    match how % 4 {
        0 => w.to_lowercase(),
        1 => w.to_uppercase(),
        2 => {
            let mut cs = w.chars();
            cs.next().map(|f| f.to_uppercase().chain(cs.flat_map(|c| c.to_lowercase())).collect()).unwrap_or_default()
        }
        _ => w.chars().enumerate().map(|(i, c)| if i % 2 == 0 { c.to_ascii_uppercase() } else { c.to_ascii_lowercase() }).collect(),
    }
}

pub fn dict_pair_strategy() -> BoxedStrategy<DictPair> {
    const VOCAB: [&str; 10] = ["frobnix", "Qwertzu", "markdownlint", "harperls", "O'Brienish", "naïvetéx", "zzyzxq", "McFlurble", "plugh", "xyzzyish"];
    (
        proptest::collection::vec((0usize..VOCAB.len(), 0u8..4), 1..4),
        0u8..8,
        any::<u16>(),
        0u8..4,
        0u8..4,
    )
        .prop_map(|(ws, how, pick, c1, c2)| {
            let before: Vec<String> = ws.iter().map(|(i, c)| recase(VOCAB[*i], *c)).collect();
            let k = (pick as usize * before.len()) >> 16;
            let mut after = before.clone();
            match how {
                0 => {}
                1 => after.reverse(),
                2 | 3 => after[k] = recase(&after[k], c1),
                4 => after[k] = after[k].replace('\'', "’"),
                // one word swapped for another: as many words as before
                6 | 7 => after[k] = recase(VOCAB[(pick as usize * 7 + 3) % VOCAB.len()], c1),
                _ => after.push(recase(VOCAB[(pick as usize * VOCAB.len()) >> 16], c2)),
            }
            let mut text = String::from("We like");
            for w in before.iter().chain(after.iter()) {
                text.push(' ');
                text.push_str(w);
                text.push_str(" and");
                text.push(' ');
                text.push_str(&recase(w, c2));
            }
            text.push_str(" here.");
            DictPair { before, after, text }
        })
        .boxed()
}

pub fn run(run: &mut Run) {
    let n = run.n(1_500, 30_000);
    run.prop("dictionary_change_detection", n, dict_pair_strategy, test_dict_pair);
    run.require_class("dictionary_change_detection", "compared_equal_linter_kept", (n / 10) as u64);
    run.require_class("dictionary_change_detection", "differ_in_capitalisation_only", (n / 10) as u64);
    run.require_class("dictionary_change_detection", "two_dictionaries_of_one_size_with_other_words", (n / 10) as u64);
    run.rule = "histories of 1-40 ops (SetConfig(G-CONFIG) | Lint(pool doc, language in {plain, markdown, typst, html, rust})) on one long-lived LintGroup; the pool repeats 1-3 generated clauses alone, at other offsets, at the end vs the middle, inside Markdown emphasis and inside a comment so that cache keys recur; after every Lint the result must equal (==, order included) that of a freshly built LintGroup with the current config. Plus: a batch linted by 8 threads (own linters, rotated order) and by one linter moved across threads equals the sequential run; two fresh processes give byte-identical output; dictionary_change_detection: pairs of user word lists (same / reordered / one entry recapitalised / apostrophe variant / one word swapped for another / one more word) merged with the curated dictionary as harper-ls does — whenever the two compare equal (the test on which the server keeps its linter) linting a text that uses the words must give the same result with either, and a thread that parsed with the first and then with the second reports for the second what a fresh thread reports; an eviction run with >10,000 distinct clauses. Non-trivial = a clause recurs (cache hit) after a config change or in another language.".into();
    let n = run.n(1_500, 30_000);
    run.prop("op_sequences", n, || seq_strategy(40), test_sequence);
    run.require_class("op_sequences", "cache_hit_after_config_change", (n / 4) as u64);
    run.require_class("op_sequences", "cache_hit_in_other_language", (n / 4) as u64);
    run.require_class("op_sequences", "firing_rule_toggled_between_hits", (n / 4) as u64);
    run.require_class("op_sequences", "edited_twin_differs_after_130_chars", (n / 4) as u64);
    run.require_class("op_sequences", "edited_twin_changes_the_result", (n / 10) as u64);
    run.require_class("op_sequences", "edited_twin_changes_the_result_after_130_chars", (n / 25) as u64);

    let n = run.n(60, 2_000);
    run.prop(
        "threads",
        n,
        || {
            proptest::collection::vec((g::text(), 0u8..5, g::config_spec()), 2..8)
                .prop_map(|items| BatchCase { items })
                .boxed()
        },
        test_threads,
    );
    run_processes(run);
    if run.tier == crate::core::Tier::Thorough {
        eviction_run(run);
    }
}

/// >10,000 distinct clauses on one linter (forces LRU eviction), then re-lint early documents.
fn eviction_run(run: &mut Run) {
    let h = g::harvest();
    let dict = FstDictionary::curated();
    let mut group = LintGroup::new_curated(dict.clone(), DIALECTS[0]);
    let mut st = crate::core::CheckStats::new("lru_eviction");
    let mut texts = vec![];
    for i in 0..12_000usize {
        let s = &h.sentences[i % h.sentences.len()];
        texts.push(format!("{s} Item {i} of {}.", i * 7 + 1));
    }
    for (i, t) in texts.iter().enumerate().chain(texts.iter().enumerate().take(2000)) {
        let Some((doc, _)) = make_doc(t, "plaintext") else { continue };
        let Ok(reused) = crate::core::catch(|| group.lint(&doc)) else { continue };
        st.evaluations += 1;
        if i % 16 == 0 {
            let fresh = LintGroup::new_curated(dict.clone(), DIALECTS[0]).lint(&doc);
            st.nontrivial.insert(crate::core::h64(t));
            if reused != fresh {
                run.fail("lru_eviction", serde_json::json!({"index": i, "text": t}), "long-lived linter disagrees with a fresh one after cache eviction".into());
                break;
            }
        }
    }
    st.samples.push(serde_json::json!(texts[0]));
    run.add_stats(st);
}

pub fn replay(check: &str, case: Value, _run: &mut Run) -> Result<(), String> {
    let mut ctx = CaseCtx::default();
    match check {
        "threads" => {
            let c: BatchCase = serde_json::from_value(case).map_err(|e| e.to_string())?;
            test_threads(&c, &mut ctx)
        }
        "dictionary_change_detection" => {
            let c: DictPair = serde_json::from_value(case).map_err(|e| e.to_string())?;
            test_dict_pair(&c, &mut ctx)
        }
        "op_sequences" => {
            let c: SeqCase = serde_json::from_value(case).map_err(|e| e.to_string())?;
            test_sequence(&c, &mut ctx)
        }
        _ => Err("this sub-check has no single-case replay (re-run the check)".into()),
    }
}
