//! C03 — every lint points into the text; every suggestion is a well-defined local edit.
//! Part (a): the edit primitive. Part (b), lints of real documents, lives in the shared
//! C01/C02/C03 document sweep (`props::docsweep`).

use harper_core::Span;
use harper_core::linting::Suggestion;
use proptest::prelude::*;
use serde::{Deserialize, Serialize};
use serde_json::Value;

use crate::core::{CaseCtx, Run};
use crate::oracle;

#[derive(Debug, Clone, Serialize, Deserialize, PartialEq, Eq, Hash)]
pub enum Sug {
    Replace(String),
    Insert(String),
    Remove,
}

#[derive(Debug, Clone, Serialize, Deserialize, PartialEq, Eq, Hash)]
pub struct EditCase {
    pub text: String,
    pub start: usize,
    pub end: usize,
    pub sug: Sug,
}

impl Sug {
    pub fn to_harper(&self) -> Suggestion {
        match self {
            Sug::Replace(s) => Suggestion::ReplaceWith(s.chars().collect()),
            Sug::Insert(s) => Suggestion::InsertAfter(s.chars().collect()),
            Sug::Remove => Suggestion::Remove,
        }
    }
}

pub fn test_edit(c: &EditCase, ctx: &mut CaseCtx) -> Result<(), String> {
    let text: Vec<char> = c.text.chars().collect();
    let n = text.len();
    // domain: span inside the text
    if !(c.start <= c.end && c.end <= n) {
        ctx.class("out_of_domain");
        return Ok(());
    }
    let sug = c.sug.to_harper();
    let expected = oracle::ref_apply(&text, c.start, c.end, &sug);
    let mut got = text.clone();
    sug.apply(
        Span {
            start: c.start,
            end: c.end,
        },
        &mut got,
    );
    let empty = c.start == c.end;
    let touches_end = c.start == 0 || c.end == n;
    let same_len = matches!(&c.sug, Sug::Replace(r) if r.chars().count() == c.end - c.start);
    ctx.class_if(empty, "empty_span");
    ctx.class_if(touches_end, "touches_text_end");
    ctx.class_if(same_len, "equal_length_replace");
    ctx.class_if(!c.text.is_ascii(), "multibyte");
    ctx.class(match c.sug {
        Sug::Replace(_) => "replace",
        Sug::Insert(_) => "insert",
        Sug::Remove => "remove",
    });
    if empty || touches_end || same_len {
        ctx.nontrivial(c);
    }
    if got != expected {
        return Err(format!(
            "apply({:?}) at {}..{} of {:?} = {:?}, reference splice = {:?}",
            c.sug,
            c.start,
            c.end,
            c.text,
            oracle::string(&got),
            oracle::string(&expected)
        ));
    }
    Ok(())
}

const ALPHABET: &[char] = &['a', 'b', ' ', 'é', '😀', '\n'];

fn small_string(max: usize) -> BoxedStrategy<String> {
    proptest::collection::vec(0..ALPHABET.len(), 0..=max)
        .prop_map(|v| v.into_iter().map(|i| ALPHABET[i]).collect())
        .boxed()
}

pub fn edit_strategy(max_text: usize) -> BoxedStrategy<EditCase> {
    (
        small_string(max_text),
        any::<u16>(),
        any::<u16>(),
        prop_oneof![
            3 => small_string(8).prop_map(Sug::Replace),
            2 => small_string(8).prop_map(Sug::Insert),
            2 => Just(Sug::Remove),
        ],
        0u8..4,
    )
        .prop_map(|(text, a, b, sug, mode)| {
            let n = text.chars().count();
            let x = crate::core::pick_idx(a, n + 1);
            let y = crate::core::pick_idx(b, n + 1);
            let (start, end) = (x.min(y), x.max(y));
            // bias: make the replacement the same length as the span sometimes
            let sug = match (&sug, mode) {
                (Sug::Replace(r), 0) => {
                    let want = end - start;
                    let mut rc: Vec<char> = r.chars().collect();
                    while rc.len() < want {
                        rc.push('b');
                    }
                    rc.truncate(want);
                    Sug::Replace(rc.into_iter().collect())
                }
                _ => sug,
            };
            EditCase {
                text,
                start,
                end,
                sug,
            }
        })
        .boxed()
}

pub fn run_edit_primitive(run: &mut Run) {
    // E2: small scope, exhaustive: all texts <= N over 2 symbols x all spans x 6 suggestions
    let maxlen = run.tier.pick(4usize, 6usize);
    let syms = ['a', '😀'];
    let mut texts: Vec<String> = vec![String::new()];
    let mut frontier = vec![String::new()];
    for _ in 0..maxlen {
        let mut next = vec![];
        for f in &frontier {
            for s in syms {
                let mut t = f.clone();
                t.push(s);
                next.push(t);
            }
        }
        texts.extend(next.iter().cloned());
        frontier = next;
    }
    let sugs = [
        Sug::Replace(String::new()),
        Sug::Replace("x".into()),
        Sug::Replace("xy".into()),
        Sug::Replace("x😀z".into()),
        Sug::Insert(String::new()),
        Sug::Insert("xy".into()),
        Sug::Remove,
    ];
    let mut cases = vec![];
    for t in &texts {
        let n = t.chars().count();
        for s in 0..=n {
            for e in s..=n {
                for sg in &sugs {
                    cases.push(EditCase {
                        text: t.clone(),
                        start: s,
                        end: e,
                        sug: sg.clone(),
                    });
                }
            }
        }
    }
    run.enumerate("edit_primitive_small_scope", &cases, true, test_edit);
    let n = run.n(200_000, 5_000_000);
    run.prop("edit_primitive_random", n, || edit_strategy(40), test_edit);
    run.require_class("edit_primitive_random", "equal_length_replace", (n / 50) as u64);
    run.require_class("edit_primitive_random", "empty_span", (n / 50) as u64);
    run.require_class("edit_primitive_random", "remove", (n / 10) as u64);
}

pub fn test_doc_case(
    case: &super::docsweep::DocCase,
    ctx: &mut CaseCtx,
) -> Result<(), String> {
    use super::docsweep;
    if let Some(kf) = docsweep::excluded_by_known(case) {
        ctx.class(format!("excluded:{kf}"));
        return Ok(());
    }
    let ev = match docsweep::evaluate(case) {
        Ok(ev) => ev,
        Err(_) => {
            ctx.class("skipped_c01_panic");
            return Ok(());
        }
    };
    docsweep::classify(case, Some(&ev), ctx);
    let mut behind_multibyte = false;
    let mut later_paragraph = false;
    for l in &ev.lints {
        crate::oracle::check_lint_against_text(l, &ev.source)
            .map_err(|e| format!("({}) {}", case.fe.label(), e))?;
        let before = &ev.source[..l.span.start.min(ev.source.len())];
        behind_multibyte |= before.iter().any(|c| c.len_utf8() > 1);
        later_paragraph |= before.windows(2).any(|w| w == ['\n', '\n']);
    }
    ctx.class_if(behind_multibyte, "lint_behind_multibyte");
    ctx.class_if(later_paragraph, "lint_in_later_paragraph");
    ctx.class_if(ev.lints.iter().any(|l| !l.suggestions.is_empty()), "has_suggestions");
    if !ev.lints.is_empty() && (behind_multibyte || later_paragraph || !case.fe.is_plain()) {
        ctx.nontrivial(&(&case.fe, &case.text));
    }
    Ok(())
}

pub fn run(run: &mut Run) {
    run.rule = "(a) edit primitive: all texts <=4 (thorough 6) over {a, astral} x all spans x 7 suggestions exhaustively, plus random (text <=40 chars over a 6-symbol alphabet incl. astral/newline, span anywhere incl. empty and both ends, Replace/Insert/Remove, equal-length replacements forced in 1/4 of Replace cases); non-trivial = span touches a text end, is empty, or replacement length = span length. (b) every lint of every document of the C01 sweep (all front-ends, configs, dialects): span inside the text and every suggestion equals the reference splice; non-trivial = a lint behind a multi-byte char, in a later paragraph or in a markup/comment front-end.".into();
    run_edit_primitive(run);
    run.guard = true;
    run.max_shrink_iters = 400;
    let n = run.n(16_000, 1_000_000);
    run.prop(
        "document_lints",
        n,
        super::docsweep::doc_case_strategy,
        test_doc_case,
    );
    run.require_class("document_lints", "has_suggestions", (n / 5) as u64);
    run.require_class("document_lints", "lint_behind_multibyte", (n / 50) as u64);
    run.require_class("document_lints", "lint_in_later_paragraph", (n / 50) as u64);
}

pub fn replay(check: &str, case: Value, _run: &mut Run) -> Result<(), String> {
    if check == "document_lints" {
        let c: super::docsweep::DocCase = serde_json::from_value(case).map_err(|e| e.to_string())?;
        let mut ctx = CaseCtx::default();
        return test_doc_case(&c, &mut ctx);
    }
    replay_edit(case)
}

pub fn replay_edit(case: Value) -> Result<(), String> {
    let c: EditCase = serde_json::from_value(case).map_err(|e| e.to_string())?;
    let mut ctx = CaseCtx::default();
    test_edit(&c, &mut ctx)
}
