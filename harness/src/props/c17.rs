//! C17 — ordinal suffixes are judged correctly for every number.

use harper_core::linting::{LintGroup, Linter, Suggestion};
use harper_core::parsers::PlainEnglish;
use harper_core::{Dialect, Document, FstDictionary};
use proptest::prelude::*;
use serde::{Deserialize, Serialize};
use serde_json::Value;

use crate::core::{CaseCtx, Run};
use crate::generators as g;

#[derive(Debug, Clone, Serialize, Deserialize, PartialEq, Eq, Hash)]
pub struct OrdCase {
    pub n: u64,
    /// 0 st, 1 nd, 2 rd, 3 th
    pub suffix: u8,
    /// bit0: first letter upper, bit1: second letter upper
    pub case_bits: u8,
    pub prefix: String,
    pub postfix: String,
}

const SUFFIXES: [&str; 4] = ["st", "nd", "rd", "th"];

/// reference ordinal rule on the integer
pub fn ref_suffix(n: u64) -> &'static str {
    match n % 100 {
        11..=13 => "th",
        _ => match n % 10 {
            1 => "st",
            2 => "nd",
            3 => "rd",
            _ => "th",
        },
    }
}

fn cased(s: &str, bits: u8) -> String {
    s.chars()
        .enumerate()
        .map(|(i, c)| {
            if bits >> i & 1 == 1 {
                c.to_ascii_uppercase()
            } else {
                c
            }
        })
        .collect()
}

thread_local! {
    static GROUP: std::cell::RefCell<Option<LintGroup>> = const { std::cell::RefCell::new(None) };
}

fn lint_suffix_only(text: &str) -> Vec<harper_core::linting::Lint> {
    let dict = FstDictionary::curated();
    let doc = Document::new(text, &PlainEnglish, &dict);
    // a fresh rule object is cheap; reuse one LintGroup per thread for speed, with only the
    // rule under test enabled (CorrectNumberSuffix is not a cached pattern rule)
    GROUP.with(|g| {
        let mut g = g.borrow_mut();
        let group = g.get_or_insert_with(|| {
            let mut grp = LintGroup::new_curated(FstDictionary::curated(), Dialect::American);
            grp.config = crate::generators::ConfigSpec::only(&["CorrectNumberSuffix"]).build();
            grp
        });
        group.lint(&doc)
    })
}

pub fn test_ord(c: &OrdCase, ctx: &mut CaseCtx) -> Result<(), String> {
    let suffix = cased(SUFFIXES[c.suffix as usize % 4], c.case_bits);
    let digits = c.n.to_string();
    let text = format!("{}{}{}{}", c.prefix, digits, suffix, c.postfix);
    let prefix_chars = c.prefix.chars().count();
    let suffix_start = prefix_chars + digits.len();
    let correct = ref_suffix(c.n);
    let is_wrong = !suffix.eq_ignore_ascii_case(correct);
    ctx.class_if(c.n >= 100, "n>=100");
    ctx.class_if((11..=13).contains(&(c.n % 100)), "teens");
    ctx.class_if(c.case_bits & 3 != 0, "upper_or_mixed");
    ctx.class_if(c.n >= 1 << 32, "n>=2^32");
    ctx.class_if(is_wrong, "wrong_suffix");
    ctx.class_if(!c.prefix.is_ascii(), "multibyte_prefix");
    ctx.class_if(c.postfix.starts_with(['\r', '\u{a0}', '😀', '中', '\u{200b}']) || c.postfix.starts_with("\n\n") || c.postfix.starts_with("\n \n"), "followed_by_unlintable_or_paragraph_break");
    if c.n >= 100 || (11..=13).contains(&(c.n % 100)) || c.case_bits & 3 != 0 {
        ctx.nontrivial(&(c.n, c.suffix, c.case_bits & 3));
    }
    let lints = lint_suffix_only(&text);
    if !is_wrong {
        if !lints.is_empty() {
            return Err(format!(
                "{text:?}: suffix is correct but {} lint(s) reported: {:?}",
                lints.len(),
                lints[0].message
            ));
        }
        return Ok(());
    }
    if lints.len() != 1 {
        return Err(format!(
            "{text:?}: suffix {suffix:?} is wrong for {} (should be {correct}) but {} lints reported",
            c.n,
            lints.len()
        ));
    }
    let l = &lints[0];
    if (l.span.start, l.span.end) != (suffix_start, suffix_start + 2) {
        return Err(format!(
            "{text:?}: lint span {}..{} is not the two suffix letters {}..{}",
            l.span.start,
            l.span.end,
            suffix_start,
            suffix_start + 2
        ));
    }
    if l.suggestions.len() != 1 {
        return Err(format!(
            "{text:?}: expected a single suggestion, got {:?}",
            l.suggestions
        ));
    }
    match &l.suggestions[0] {
        Suggestion::ReplaceWith(r) if r.iter().collect::<String>().eq_ignore_ascii_case(correct) => {}
        other => {
            return Err(format!(
                "{text:?}: suggestion {other:?} is not the correct suffix {correct:?}"
            ));
        }
    }
    let mut fixed: Vec<char> = text.chars().collect();
    l.suggestions[0].apply(l.span, &mut fixed);
    let fixed: String = fixed.into_iter().collect();
    let again = lint_suffix_only(&fixed);
    if !again.is_empty() {
        return Err(format!(
            "{text:?}: after applying the suggestion ({fixed:?}) {} lint(s) remain",
            again.len()
        ));
    }
    Ok(())
}

fn frame() -> BoxedStrategy<(String, String)> {
    prop_oneof![
        4 => Just(("The ".to_string(), " item.".to_string())),
        2 => (g::sel_str(&["The ", "She finished ", "Open on the ", "THE "]), g::sel_str(&[" 10 rows are wrong.", " 3 times in a row.", " 13 and 14 of May.", " 5 ENTRIES", " 7lb of flour", " 2.5 kg"])).prop_map(|(a, b)| (a, b)),
        2 => Just((String::new(), String::new())),
        1 => Just((String::new(), " of May".to_string())),
        1 => Just(("On the ".to_string(), String::new())),
        1 => Just(("Ünïcödé 😀 ".to_string(), " place".to_string())),
        1 => Just(("First.\n\nThen the ".to_string(), ", and the 2nd.".to_string())),
        2 => (g::plain_word(), g::plain_word()).prop_map(|(a, b)| (format!("{a} "), format!(" {b}."))),
        // followed by something that is neither blank, punctuation nor a word: a CRLF line end, a
        // no-break space, an emoji, CJK text, a paragraph break
        3 => (g::sel_str(&["The ", "", "On the "]), g::sel_str(&["\r\nnext line", "\u{a0}item", "😀", " 😀", "中文", "\n\nNext paragraph.", "\n\n", "\r\n\r\nNext.", "\u{200b}x", "\n \n"]))
            .prop_map(|(a, b)| { (a, b) }),
        1 => Just(("(".to_string(), ")".to_string())),
        1 => Just(("\"".to_string(), "\"".to_string())),
        // joined to a word by a hyphen; other numbers and suffix-like words earlier in the sentence
        3 => (g::sel_str(&["mid-", "top-", "pre-", "a sub-", "-", "the post-", "x-", "1st-", "3-"]), g::sel_str(&["", " item.", " century", "-", "-9th"]))
            .prop_map(|(a, b)| (a, b)),
        3 => (g::sel_str(&["At 21 St Marks Place the ", "See 101 St Johns Road, then the ", "the 4 th and the ", "The 1st, the 22nd and the ", "In 1990s terms the ", "Take 5 then ", "No. 7 nd "]), g::sel_str(&["", " floor.", " x", ".", " 10 rows are wrong.", " 3 times in a row.", " 13 and 14 of May.", " 7lb", " 100 times"]))
            .prop_map(|(a, b)| (a, b)),
        3 => (proptest::collection::vec(g::plain_word(), 1..6), g::sel_str(&[" ", ", ", " - ", "; ", ": ", "\n", "\t"]), proptest::collection::vec(g::plain_word(), 0..3))
            .prop_map(|(a, sep, b)| (format!("{}{sep}", a.join(" ")), if b.is_empty() { String::new() } else { format!(" {}", b.join(" ")) })),
    ]
    .boxed()
}

fn ord_strategy() -> BoxedStrategy<OrdCase> {
    let max = (1u64 << 53) - 1;
    let n = prop_oneof![
        3 => 0u64..=max,
        2 => (0u64..(max / 100), prop_oneof![Just(11u64), Just(12), Just(13), Just(1), Just(2), Just(3), Just(0), Just(21), Just(22), Just(23)])
            .prop_map(|(h, l)| h * 100 + l),
        1 => (0u32..16, 0u64..4).prop_map(|(p, d)| 10u64.pow(p).saturating_add(d).min((1u64 << 53) - 1)),
        1 => (0u64..2000).prop_map(move |d| max - d),
        1 => (0u32..53, 0u64..4).prop_map(|(p, d)| ((1u64 << p) + d).min((1u64 << 53) - 1)),
        2 => 0u64..100_000_000,
    ];
    (n, 0u8..4, 0u8..4, frame())
        .prop_map(|(n, suffix, case_bits, (prefix, postfix))| OrdCase {
            n,
            suffix,
            case_bits,
            prefix,
            postfix,
        })
        .boxed()
}

pub fn run(run: &mut Run) {
    run.rule = "exhaustive: every n in 0..10^5 x {st,nd,rd,th} x letter-case patterns (quick: lower-case + one seed-chosen pattern per n; thorough: all 4) in the frame 'The <n><s> item.'; random: n < 2^53 biased to ..11/12/13, ..01-03, powers of ten/two, 2^53-1, in random frames (start/end of text, after multi-byte text, second paragraph, directly before a CRLF line end / no-break space / emoji / CJK text / paragraph break). Non-trivial = n>=100 or n%100 in 11..13 or upper/mixed case; distinct by (n, suffix, case).".into();
    let mut cases = Vec::with_capacity(1_700_000);
    let seed = run.seed;
    let all_cases = run.tier == crate::core::Tier::Thorough;
    for n in 0..100_000u64 {
        for suffix in 0..4u8 {
            let patterns: Vec<u8> = if all_cases {
                vec![0, 1, 2, 3]
            } else {
                vec![0, 1 + (crate::core::mix(seed, n * 4 + suffix as u64) % 3) as u8]
            };
            for case_bits in patterns {
                cases.push(OrdCase {
                    n,
                    suffix,
                    case_bits,
                    prefix: "The ".into(),
                    postfix: " item.".into(),
                });
            }
        }
    }
    let ok = run.enumerate("exhaustive_0_to_1e5", &cases, true, test_ord);
    drop(cases);
    if let Some(st) = run.stats.iter_mut().find(|s| s.name == "exhaustive_0_to_1e5") {
        st.note = Some(format!(
            "0..10^5 x 4 suffixes x {} case patterns; complete={}",
            if all_cases { "all 4" } else { "2 of 4" },
            ok
        ));
        // exhaustive in n and suffix; in quick tier not in case patterns
        st.exhaustive = ok && all_cases;
    }
    let n = run.n(100_000, 2_000_000);
    run.prop("random_below_2_53", n, ord_strategy, test_ord);
    run.require_class("random_below_2_53", "teens", (n / 20) as u64);
    run.require_class("random_below_2_53", "n>=2^32", (n / 20) as u64);
    run.require_class("random_below_2_53", "wrong_suffix", (n / 4) as u64);
    run.require_class("random_below_2_53", "followed_by_unlintable_or_paragraph_break", (n / 20) as u64);
}

pub fn replay(_check: &str, case: Value, _run: &mut Run) -> Result<(), String> {
    let c: OrdCase = serde_json::from_value(case).map_err(|e| e.to_string())?;
    let mut ctx = CaseCtx::default();
    test_ord(&c, &mut ctx)
}
