//! Shared document sweep for C01 (no panic / termination), C02 (token validity) and
//! C03 part (b) (lint spans and suggestions): generators and evaluation.

use std::cell::RefCell;
use std::collections::HashMap;
use std::sync::Arc;

use harper_core::linting::{Lint, LintGroup, Linter};
use harper_core::parsers::Parser;
use harper_core::{Dictionary, Document, FstDictionary, Lrc, Token};
use proptest::prelude::*;
use serde::{Deserialize, Serialize};

use crate::core::{CaseCtx, PanicInfo, catch, pick_idx};
use crate::frontends::{Frontend, all_lang_ids, frontend_strategy};
use crate::generators::{self as g, ConfigSpec, DIALECTS, harvest};

#[derive(Debug, Clone, Serialize, Deserialize, PartialEq, Eq, Hash)]
pub struct DocCase {
    pub fe: Frontend,
    pub text: String,
    pub config: ConfigSpec,
    pub dialect: u8,
}

impl Eq for ConfigSpec {}
impl std::hash::Hash for ConfigSpec {
    fn hash<H: std::hash::Hasher>(&self, state: &mut H) {
        serde_json::to_string(self).unwrap_or_default().hash(state)
    }
}

pub struct Evaluated {
    pub source: Vec<char>,
    pub raw_tokens: Vec<Token>,
    pub doc: Document,
    pub lints: Vec<Lint>,
}

thread_local! {
    static GROUPS: RefCell<HashMap<u8, LintGroup>> = RefCell::new(HashMap::new());
}

/// Lint with a per-thread long-lived LintGroup over the curated dictionary (fresh group when
/// the front-end built its own merged dictionary).
pub fn lint_with(
    doc: &Document,
    dict: &Arc<dyn Dictionary>,
    curated_dict: bool,
    config: &ConfigSpec,
    dialect: u8,
) -> Vec<Lint> {
    let d = DIALECTS[dialect as usize % 4];
    if curated_dict {
        GROUPS.with(|gs| {
            let mut gs = gs.borrow_mut();
            // a panic inside lint() can leave rule objects in a half-updated state: the group
            // is taken out of the map while it runs, and only put back on success.
            let mut group = gs
                .remove(&(dialect % 4))
                .unwrap_or_else(|| LintGroup::new_curated(FstDictionary::curated(), d));
            group.config = config.build();
            let lints = group.lint(doc);
            gs.insert(dialect % 4, group);
            lints
        })
    } else {
        let mut group = LintGroup::new_curated(Arc::new(dict.clone()), d).with_lint_config(config.build());
        group.lint(doc)
    }
}

pub fn nesting_depth(text: &str) -> usize {
    let mut depth = 0usize;
    let mut max = 0usize;
    for c in text.chars() {
        match c {
            '(' | '[' | '{' => {
                depth += 1;
                max = max.max(depth);
            }
            ')' | ']' | '}' => depth = depth.saturating_sub(1),
            _ => {}
        }
    }
    max
}

pub fn evaluate(case: &DocCase) -> Result<Evaluated, PanicInfo> {
    catch(|| {
        let source: Vec<char> = case.text.chars().collect();
        let (parser, dict) = case
            .fe
            .build(&source)
            .unwrap_or_else(|| (Box::new(harper_core::parsers::PlainEnglish), FstDictionary::curated()));
        let raw_tokens = parser.parse(&source);
        let doc = Document::new_from_vec(Lrc::new(source.clone()), &parser, &dict);
        let curated = !(case.fe.server_wrappers
            && !matches!(
                case.fe.lang.as_str(),
                "plaintext" | "markdown" | "html" | "typst" | "git-commit"
            ));
        let lints = lint_with(&doc, &dict, curated, &case.config, case.dialect);
        Evaluated {
            source,
            raw_tokens,
            doc,
            lints,
        }
    })
}

fn _assert_parser_send(_: &dyn Parser) {}

pub const KF_DART: &str = "KF-C01-dart-treesitter-hang";
pub const KF_TYPST: &str = "KF-C01-typst-deep-nesting";
pub const TYPST_MAX_DEPTH: usize = 256;

/// Exact predicate of open finding KF-C01-dart-treesitter-hang: the tree-sitter-dart grammar
/// *on its own* (no harper code involved) does not finish parsing the text within 3 s.
pub fn dart_treesitter_stalls(text: &str) -> bool {
    let mut parser = tree_sitter::Parser::new();
    if parser.set_language(tree_sitter_dart::language()).is_err() {
        return false;
    }
    parser.set_timeout_micros(3_000_000);
    parser.parse(text, None).is_none()
}

/// Inputs excluded from the must-hold search because they hit an *open* known finding that
/// cannot be tolerated with catch_unwind (hang / abort). Returns the finding id.
pub fn excluded_by_known(case: &DocCase) -> Option<&'static str> {
    if case.fe.lang == "typst" && nesting_depth(&case.text) > TYPST_MAX_DEPTH {
        return Some(KF_TYPST);
    }
    if case.fe.lang == "dart" && dart_treesitter_stalls(&case.text) {
        return Some(KF_DART);
    }
    None
}

// ------------------------------------------------------------------------------------------------
// generators

fn cut(s: &str, sel: u16) -> String {
    let idxs: Vec<usize> = s.char_indices().map(|(i, _)| i).chain([s.len()]).collect();
    s[..idxs[pick_idx(sel, idxs.len())]].to_string()
}

pub fn fixture_for(lang: &str) -> Option<BoxedStrategy<String>> {
    let exts: &[&str] = match lang {
        "markdown" | "plaintext" | "git-commit" => &["md"],
        "html" => &["html"],
        "typst" => &["typ"],
        "literate haskell" => &["lhs"],
        "rust" => &["rs"],
        "typescript" => &["ts"],
        "typescriptreact" => &["tsx", "ts"],
        "javascript" | "javascriptreact" => &["js"],
        "python" => &["py"],
        "nix" => &["nix"],
        "go" => &["go"],
        "c" => &["c"],
        "cpp" => &["cpp", "h"],
        "cmake" => &["cmake"],
        "ruby" => &["rb"],
        "swift" => &["swift"],
        "csharp" => &["cs"],
        "toml" => &["toml"],
        "lua" => &["lua"],
        "shellscript" => &["sh", "bash"],
        "java" => &["java"],
        "haskell" => &["hs"],
        "php" => &["php"],
        "dart" => &["dart"],
        "scala" => &["scala", "mill", "sbt"],
        _ => &[],
    };
    let files: Vec<&'static String> = harvest()
        .fixtures
        .iter()
        .filter(|(e, c)| exts.contains(&e.as_str()) && c.len() < 6000)
        .map(|(_, c)| c)
        .collect();
    if files.is_empty() {
        return None;
    }
    let n = files.len();
    Some(
        (0..n, any::<u16>(), any::<bool>())
            .prop_map(move |(i, c, whole)| {
                if whole {
                    files[i].clone()
                } else {
                    cut(files[i], c)
                }
            })
            .boxed(),
    )
}

pub fn text_for(lang: &str) -> BoxedStrategy<String> {
    let base = match fixture_for(lang) {
        Some(fx) => prop_oneof![8 => g::markup::doc_for(lang), 1 => fx].boxed(),
        None => g::markup::doc_for(lang),
    };
    // typing states: a prefix of the document, with one of the three tails
    (base, prop::bool::weighted(0.3), any::<u16>(), g::sel_str(&["", " ", "\n"]))
        .prop_map(|(t, truncate, c, tail)| {
            if truncate {
                cut(&t, c) + &tail
            } else {
                t
            }
        })
        .boxed()
}

pub fn doc_case_strategy() -> BoxedStrategy<DocCase> {
    frontend_strategy()
        .prop_flat_map(|fe| {
            let lang = fe.lang.clone();
            (Just(fe), text_for(&lang), g::config_spec(), g::dialect_idx())
        })
        .prop_map(|(fe, text, config, dialect)| DocCase {
            fe,
            text,
            config,
            dialect,
        })
        .boxed()
}

/// classification shared by the three properties
pub fn classify(case: &DocCase, ev: Option<&Evaluated>, ctx: &mut CaseCtx) {
    ctx.class(format!("lang:{}", case.fe.lang));
    ctx.class_if(case.fe.server_wrappers, "server_wrappers");
    ctx.class_if(case.fe.isolate_english, "isolate_english");
    ctx.class_if(g::has_multibyte(&case.text), "multibyte");
    ctx.class_if(g::has_astral(&case.text), "astral");
    ctx.class_if(case.text.trim().is_empty(), "blank_text");
    ctx.class_if(case.text.contains("\n\n"), "multi_paragraph");
    ctx.class(match case.config.base {
        g::ConfigBase::Curated => "cfg:curated",
        g::ConfigBase::AllOn => "cfg:all_on",
        g::ConfigBase::AllOff => "cfg:all_off",
        g::ConfigBase::Random(_) => "cfg:random",
        g::ConfigBase::OneOn(_) => "cfg:one_on",
    });
    if let Some(ev) = ev {
        ctx.class_if(!ev.lints.is_empty(), "has_lints");
        ctx.class_if(ev.doc.get_tokens().len() >= 3, "tokens>=3");
    }
}

pub fn all_frontends_basic() -> Vec<Frontend> {
    all_lang_ids().into_iter().map(Frontend::of).collect()
}
