//! C02 — tokens are in bounds, ordered, disjoint, and mean what their text says.

use harper_core::TokenKind;
use serde_json::Value;

use super::docsweep::{self, DocCase};
use crate::core::{CaseCtx, Run};
use crate::frontends::Frontend;
use crate::generators::{self as g, ConfigSpec, harvest};
use crate::oracle::tokens::{TokViolation, check_tokens, kind_label};

pub const KF_ET_AL: &str = "KF-C02-et-al-word-with-space";
pub const KF_WIKILINK: &str = "KF-C02-markdown-wikilink-token-order";

fn markdown_based(lang: &str) -> bool {
    !matches!(lang, "plaintext" | "text" | "mail" | "html" | "typst")
}

fn is_et_al(text: &str) -> bool {
    // ^et\s+al\.$ (case-insensitive)
    let t = text.to_lowercase();
    let Some(rest) = t.strip_prefix("et") else {
        return false;
    };
    let trimmed = rest.trim_start();
    trimmed.len() < rest.len() && trimmed == "al."
}

pub fn test_case(case: &DocCase, ctx: &mut CaseCtx) -> Result<(), String> {
    test_case_mode(case, ctx, false)
}

pub fn test_case_mode(case: &DocCase, ctx: &mut CaseCtx, strict: bool) -> Result<(), String> {
    if !strict {
        if let Some(kf) = docsweep::excluded_by_known(case) {
            ctx.class(format!("excluded:{kf}"));
            return Ok(());
        }
    }
    let ev = match docsweep::evaluate(case) {
        Ok(ev) => ev,
        Err(_) => {
            // a panic is C01's violation
            ctx.class("skipped_c01_panic");
            return Ok(());
        }
    };
    docsweep::classify(case, Some(&ev), ctx);
    let plain = case.fe.is_plain() && !case.fe.isolate_english;
    let doc_tokens = ev.doc.get_tokens();
    let condensable = doc_tokens.len() < ev.raw_tokens.len();
    ctx.class_if(condensable, "condensed_something");
    if doc_tokens.len() >= 3 && (g::has_multibyte(&case.text) || condensable || !case.fe.is_plain()) {
        ctx.nontrivial(&(&case.fe, &case.text));
    }
    let mut all: Vec<(&str, TokViolation)> = vec![];
    for v in check_tokens(&ev.raw_tokens, &ev.source, plain, false) {
        all.push(("Parser::parse", v));
    }
    for v in check_tokens(doc_tokens, &ev.source, plain, true) {
        all.push(("Document::get_tokens", v));
    }
    for (stage, v) in all {
        // known finding: `et al.` is deliberately condensed into one Word token containing a space
        if v.clause == "shape_word" && stage == "Document::get_tokens" && !strict {
            if let Some(t) = doc_tokens.get(v.index) {
                let body: String = ev.source[t.span.start..t.span.end].iter().collect();
                if matches!(t.kind, TokenKind::Word(_)) && is_et_al(&body) {
                    ctx.known(KF_ET_AL);
                    continue;
                }
            }
        }
        if !strict && v.clause == "order" {
            if markdown_based(&case.fe.lang) && case.text.contains("[[") {
                ctx.known(KF_WIKILINK);
                continue;
            }
        }
        let toks = if stage == "Parser::parse" {
            &ev.raw_tokens[..]
        } else {
            doc_tokens
        };
        let around: Vec<String> = (v.index.saturating_sub(2)..(v.index + 2).min(toks.len()))
            .map(|i| {
                format!(
                    "#{i} {} {}..{}",
                    kind_label(&toks[i].kind),
                    toks[i].span.start,
                    toks[i].span.end
                )
            })
            .collect();
        return Err(format!(
            "[{}] {} ({}): {} | tokens around: {:?}",
            v.clause,
            stage,
            case.fe.label(),
            v.detail,
            around
        ));
    }
    Ok(())
}

pub fn run(run: &mut Run) {
    run.rule = "same document sweep as C01 (G-FRONTEND x G-TEXT/G-MARKUP/G-PROGRAM/fixtures x typing-state truncation) plus the prefix closure of harvested sentences; oracle = validity predicate over Parser::parse output and Document::get_tokens (bounds, order/disjointness, zero-width kinds, plain-English tiling, lexical shape of Word/Space/Number/Punctuation, quote twins). Non-trivial = >=3 tokens and (multi-byte char, or a condensing pass merged tokens, or a markup/comment front-end); distinct by (front-end, text).".into();
    run.guard = true;
    run.max_shrink_iters = 400;
    // witness of the open finding
    if !run.strict && run.known.get(KF_ET_AL).is_some() {
        let c = DocCase {
            fe: Frontend::plain(),
            text: "See Smith et al. for details.".into(),
            config: ConfigSpec::curated(),
            dialect: 0,
        };
        let _ = run.single("known_witnesses", &c, test_case);
    }
    if !run.strict {
        for (kf, lang, text) in [
            (KF_WIKILINK, "markdown", "[[a b c|]] and also\n"),
        ] {
            if run.known.get(kf).is_some() {
                let c = DocCase {
                    fe: Frontend::of(lang),
                    text: text.into(),
                    config: ConfigSpec::curated(),
                    dialect: 0,
                };
                let _ = run.single("known_witnesses", &c, test_case);
            }
        }
    }
    let n = run.n(16_000, 1_000_000);
    run.prop("generated_documents", n, docsweep::doc_case_strategy, test_case);
    for lang in crate::frontends::all_lang_ids() {
        run.require_class("generated_documents", &format!("lang:{lang}"), (n / 400) as u64);
    }
    run.require_class("generated_documents", "condensed_something", (n / 10) as u64);

    // prefix closure for plain + markdown + a rotating sample of the others
    let h = harvest();
    let mut cases = vec![];
    let cfg = ConfigSpec::only(&[]);
    let langs = crate::frontends::all_lang_ids();
    let per = run.n(150, 2000) as usize;
    for (li, lang) in langs.iter().enumerate() {
        let fe = Frontend::of(lang);
        let total = h.sentences.len();
        let take = if matches!(*lang, "plaintext" | "markdown") { per * 5 } else { per };
        let base = crate::core::mix(run.seed, 1000 + li as u64) as usize;
        for k in 0..take.min(total) {
            let s = &h.sentences[(base + k * 7919) % total];
            if s.chars().count() > 160 {
                continue;
            }
            let wrapped = super::c01::wrap_for(lang, s);
            let idxs: Vec<usize> = wrapped.char_indices().map(|(i, _)| i).chain([wrapped.len()]).collect();
            for &i in &idxs {
                cases.push(DocCase {
                    fe: fe.clone(),
                    text: wrapped[..i].to_string(),
                    config: cfg.clone(),
                    dialect: 0,
                });
            }
        }
    }
    run.enumerate("prefix_closure", &cases, false, test_case);
}

pub fn replay(_check: &str, case: Value, run: &mut Run) -> Result<(), String> {
    let c: DocCase = serde_json::from_value(case).map_err(|e| e.to_string())?;
    let mut ctx = CaseCtx::default();
    test_case_mode(&c, &mut ctx, run.strict)
}
