//! C10 — the text being checked never leaves the machine.
//!
//! Invariant over the syscall history (strace -f) of (a) generated language-server sessions and
//! (b) a worker process that pushes generated documents through every front-end, the harper.js
//! API and the statistics code. A static scan of the resolved dependency set is an auxiliary,
//! reported separately (it is not generated-input search).

use std::collections::BTreeSet;
use std::path::{Path, PathBuf};
use std::time::Duration;

use proptest::prelude::*;
use serde::{Deserialize, Serialize};
use serde_json::{Value, json};

use crate::core::{CaseCtx, Run};
use crate::lsp::strace::{Sys, parse_trace, strace_wrapper};
use crate::lsp::{LspError, Sandbox, Server};

const TRACE: &str = "%network,openat,open,creat,mkdir,mkdirat,rename,renameat,renameat2,unlink,unlinkat,rmdir,truncate,ftruncate,link,linkat,symlink,symlinkat,chmod,fchmodat,execve,execveat";

const RESOLVER_FILES: &[&str] = &[
    "/etc/resolv.conf", "/etc/hosts", "/etc/nsswitch.conf", "/etc/host.conf", "/etc/gai.conf", "/var/run/nscd/socket", "/run/nscd/socket",
    "/etc/services", "/etc/ssl", "/etc/ca-certificates",
];

#[derive(Debug, Clone, Serialize, Deserialize, PartialEq, Eq, Hash)]
pub enum Step {
    Open { doc: u8, text: u8 },
    Change { doc: u8, text: u8 },
    Save { doc: u8 },
    Close { doc: u8 },
    AddUser { doc: u8 },
    AddFile { doc: u8 },
    Ignore { doc: u8 },
    Record,
    Config { idx: u8 },
    CodeActions { doc: u8 },
    DeleteFile { doc: u8 },
    /// open / change / save / dictionary commands on one of ODD_URIS
    OddUri { which: u8, text: u8 },
    /// a document deep in the workspace (absolute path of 150-400 bytes): open, add words to the
    /// file and user dictionaries, save, close
    DeepPath { shape: u8, text: u8 },
    /// the client starts answering configuration requests with other dictionary paths, without a
    /// change notification (the server pulls the configuration on every document update)
    SilentPaths,
}

#[derive(Debug, Clone, Serialize, Deserialize, PartialEq, Eq, Hash)]
pub struct Session {
    pub steps: Vec<Step>,
    pub tcp: bool,
    /// the configured user dictionary is a relative symbolic link to a file elsewhere (dotfiles)
    #[serde(default)]
    pub symlinked_user_dict: bool,
    /// what the user dictionary holds when the server starts: 0-3 nothing special, 4 a Latin-1
    /// byte, 5 a UTF-16 byte-order mark, 6 a multi-byte character cut in half, 7 CRLF line ends
    #[serde(default)]
    pub user_dict_bytes: u8,
}

const DOCS: [(&str, &str); 4] = [("a.md", "markdown"), ("b.txt", "plaintext"), ("c.rs", "rust"), ("d.html", "html")];
/// document URIs an editor can send that are not plain local paths: a `file:` URI with a host
/// authority, an unsaved buffer, a URI with percent-escapes and a query
const ODD_URIS: [&str; 4] = ["file://buildhost/tmp/hv-remote.md", "untitled:Untitled-7", "file://workstation.corp.example/srv/doc%20x.txt", "file:///tmp/does-not-exist/hv%20q.md?x=1#frag"];
const TEXTS: &[&str] = &[
    "This is an test with teh frobnix. See https://example.com/secret?token=abc and mail me@example.com.\n",
    "Their is a problem on www.example.org, contact admin@internal.corp.\n",
    "// A comment about http://10.0.0.1:8080/path and the the qwertzu.\n",
    "<p>Visit <a href=\"https://evil.example/\">this</a> an page.</p>\n",
    "Plain text without anything special, but an wibblet.\n",
];
const CONFIGS: &[&str] = &[
    "{}", r#"{"linters": {"SpellCheck": false}}"#, r#"{"dialect": "British"}"#, r#"{"isolateEnglish": true}"#, r#"{"codeActions": {"ForceStable": true}}"#,
    // what an editor extension sends for settings the user left blank: the empty string means
    // "not set", i.e. the default location below the (sandboxed) XDG directories
    r#"{"fileDictPath": ""}"#, r#"{"userDictPath": ""}"#, r#"{"statsPath": "", "fileDictPath": ""}"#,
    // a user-dictionary setting that names an existing directory (<DIR> is replaced by one inside
    // the sandbox): every save fails, and nothing may be left behind
    r#"{"userDictPath": "<DIR>"}"#, r#"{"userDictPath": "<DIR>/"}"#,
];

/// settings under which added words are not expected in the sandbox's regular dictionaries
fn odd_paths(config_idx: usize) -> bool {
    let c = CONFIGS[config_idx % CONFIGS.len()];
    c.contains("Path\": \"\"") || c.contains("<DIR>")
}

#[derive(Debug, Clone)]
pub struct Finding {
    pub what: String,
}

fn has_flag(args: &str, f: &str) -> bool {
    args.split(|c: char| !(c.is_ascii_alphanumeric() || c == '_')).any(|t| t == f)
}

/// Files the traced process created (open with O_CREAT, rename / link target) and neither removed
/// nor renamed away again.
pub fn left_behind(trace: &[Sys]) -> Vec<String> {
    let mut live: Vec<String> = vec![];
    for s in trace {
        if s.failed() {
            continue;
        }
        let strs = s.string_args();
        match s.name.as_str() {
            "openat" | "open" | "creat" => {
                if let Some(p) = strs.first() {
                    if (has_flag(&s.args, "O_CREAT") || s.name == "creat") && !live.contains(&p.to_string()) {
                        live.push(p.to_string());
                    }
                }
            }
            "rename" | "renameat" | "renameat2" => {
                if let (Some(a), Some(b)) = (strs.first(), strs.get(1)) {
                    live.retain(|x| x != a);
                    if !live.contains(&b.to_string()) {
                        live.push(b.to_string());
                    }
                }
            }
            "link" | "linkat" | "symlink" | "symlinkat" => {
                if let Some(b) = strs.get(1) {
                    if !live.contains(&b.to_string()) {
                        live.push(b.to_string());
                    }
                }
            }
            "unlink" | "unlinkat" => {
                if let Some(a) = strs.first() {
                    live.retain(|x| x != a);
                }
            }
            _ => {}
        }
    }
    live
}

/// The invariant. `allowed_write_prefixes`: paths the process may create/modify; `listener`: the
/// loopback listener is allowed (TCP mode).
pub fn audit(trace: &[Sys], allowed_write_prefixes: &[String], allowed_dirs: &[String], listener: bool, own_binary: &str) -> Vec<Finding> {
    let mut out = vec![];
    let mut first_exec = true;
    for s in trace {
        let strs = s.string_args();
        let dargs = s.decoded_args();
        match s.name.as_str() {
            "socket" => {
                let inet = s.args.contains("AF_INET");
                let unix = s.args.contains("AF_UNIX") || s.args.contains("AF_LOCAL");
                let netlink = s.args.contains("AF_NETLINK");
                if inet && listener && s.args.contains("SOCK_STREAM") {
                    continue;
                }
                if inet || unix || netlink || !s.failed() {
                    out.push(Finding { what: format!("creates a socket: socket({})", crate::core::truncate(&s.args, 120)) });
                }
            }
            "connect" | "sendto" | "sendmsg" | "sendmmsg" => {
                // traffic on the accepted editor connection in TCP mode shows up as sendto/recvfrom on that fd only
                if listener && s.name != "connect" && dargs.contains("127.0.0.1") {
                    continue;
                }
                if listener && s.name != "connect" && !s.args.contains("sin_addr") && !s.args.contains("sun_path") {
                    // send on an already connected socket (the editor's connection)
                    continue;
                }
                out.push(Finding { what: format!("{}({})", s.name, crate::core::truncate(&dargs, 160)) });
            }
            "bind" => {
                if !(listener && dargs.contains("inet_addr(\"127.0.0.1\")") && dargs.contains("htons(4000)")) {
                    out.push(Finding { what: format!("binds a socket: bind({})", crate::core::truncate(&dargs, 160)) });
                }
            }
            "listen" | "accept" | "accept4" => {
                if !listener {
                    out.push(Finding { what: format!("{}({})", s.name, crate::core::truncate(&s.args, 120)) });
                }
            }
            "getsockname" | "getpeername" | "setsockopt" | "getsockopt" | "recvfrom" | "recvmsg" | "shutdown" | "socketpair" | "recvmmsg" => {
                if !listener && s.name != "socketpair" {
                    out.push(Finding { what: format!("socket activity: {}({})", s.name, crate::core::truncate(&s.args, 120)) });
                }
            }
            "execve" | "execveat" => {
                if first_exec || strs.first().is_some_and(|p| p == own_binary) {
                    first_exec = false;
                    continue;
                }
                if !s.failed() {
                    out.push(Finding { what: format!("starts another program: {:?}", strs.first()) });
                }
            }
            "openat" | "open" | "creat" => {
                let Some(p) = strs.first() else { continue };
                if RESOLVER_FILES.iter().any(|r| p.starts_with(r)) {
                    out.push(Finding { what: format!("resolver / TLS activity: opens {p}") });
                    continue;
                }
                let write = has_flag(&s.args, "O_WRONLY") || has_flag(&s.args, "O_RDWR") || has_flag(&s.args, "O_CREAT") || has_flag(&s.args, "O_TRUNC") || has_flag(&s.args, "O_APPEND") || s.name == "creat";
                if !write || s.failed() {
                    continue;
                }
                if p == "/dev/null" || p == "/dev/tty" || p.starts_with("/proc/self/") {
                    continue;
                }
                if !allowed_write_prefixes.iter().any(|a| p.starts_with(a.as_str())) {
                    out.push(Finding { what: format!("opens {p} for writing ({})", s.args.split(',').find(|a| a.contains("O_")).unwrap_or("").trim()) });
                }
            }
            "mkdir" | "mkdirat" => {
                let Some(p) = strs.first() else { continue };
                let ok = allowed_dirs.iter().any(|d| d.starts_with(p.as_str()) || p.starts_with(d.as_str()));
                if !ok && !s.failed() {
                    out.push(Finding { what: format!("creates directory {p}") });
                }
            }
            "rename" | "renameat" | "renameat2" | "link" | "linkat" | "symlink" | "symlinkat" => {
                for p in strs.iter().take(2) {
                    if !allowed_write_prefixes.iter().any(|a| p.starts_with(a.as_str())) && !s.failed() {
                        out.push(Finding { what: format!("{} touches {p}", s.name) });
                    }
                }
            }
            "unlink" | "unlinkat" | "rmdir" | "truncate" | "chmod" | "fchmodat" => {
                if let Some(p) = strs.first() {
                    if !allowed_write_prefixes.iter().any(|a| p.starts_with(a.as_str())) && !s.failed() {
                        out.push(Finding { what: format!("{} on {p}", s.name) });
                    }
                }
            }
            "ftruncate" => {
                if let Some((_, p)) = s.fd_paths().into_iter().next() {
                    if !allowed_write_prefixes.iter().any(|a| p.starts_with(a.as_str())) {
                        out.push(Finding { what: format!("ftruncate on {p}") });
                    }
                }
            }
            _ => {}
        }
    }
    out
}

fn run_session(c: &Session, ctx: &mut CaseCtx) -> Result<Result<(), String>, LspError> {
    let sb = Sandbox::new("c10");
    let trace_file = sb.root.join("trace.txt");
    // generation of the dictionary paths the client reports: 0 = the sandbox defaults, 1 = others
    let alt_user = sb.root.join("dicts2/user2.txt");
    let alt_files = sb.root.join("filedicts2");
    let paths_gen = std::cell::Cell::new(0usize);
    let a_dir = sb.root.join("adir");
    std::fs::create_dir_all(&a_dir).map_err(|e| LspError::Protocol(e.to_string()))?;
    let settings_of = |idx: usize| {
        let mut extra: Value = serde_json::from_str(CONFIGS[idx % CONFIGS.len()]).unwrap_or(json!({}));
        if let Some(v) = extra.get("userDictPath").and_then(|v| v.as_str()).filter(|v| v.contains("<DIR>")).map(|v| v.replace("<DIR>", &a_dir.to_string_lossy())) {
            extra["userDictPath"] = json!(v);
        }
        if paths_gen.get() == 1 {
            extra["userDictPath"] = json!(alt_user.to_string_lossy());
            extra["fileDictPath"] = json!(alt_files.to_string_lossy());
        }
        sb.settings(extra)
    };
    let link_target = sb.root.join("dotfiles/harper/dictionary.txt");
    if c.symlinked_user_dict {
        let io = |e: std::io::Error| LspError::Protocol(e.to_string());
        std::fs::create_dir_all(link_target.parent().unwrap()).map_err(io)?;
        std::fs::write(&link_target, "quuxify\n").map_err(io)?;
        std::fs::create_dir_all(sb.user_dict().parent().unwrap()).map_err(io)?;
        std::os::unix::fs::symlink("../dotfiles/harper/dictionary.txt", sb.user_dict()).map_err(io)?;
        ctx.class("user_dictionary_is_a_relative_symbolic_link");
    }
    {
        let content: Option<&[u8]> = match c.user_dict_bytes % 8 {
            4 => Some(b"caf\xe9\nquuxify\n"),
            5 => Some(b"\xff\xfeq\x00u\x00\n\x00"),
            6 => Some(b"quuxify\nna\xc3"),
            7 => Some(b"quuxify\r\nfrobnix\r\n"),
            _ => None,
        };
        if let Some(bytes) = content {
            let target = if c.symlinked_user_dict { link_target.clone() } else { sb.user_dict() };
            if let Some(d) = target.parent() {
                let _ = std::fs::create_dir_all(d);
            }
            std::fs::write(&target, bytes).map_err(|e| LspError::Protocol(e.to_string()))?;
            ctx.class_if(c.user_dict_bytes % 8 != 7, "user_dictionary_is_not_valid_utf8");
        }
    }
    // (word, user dictionary?, generation of the paths in force when it was added)
    let mut added: Vec<(String, bool, usize)> = vec![];
    // which generation the server has seen: it learns about a silent change with the next
    // configuration pull, i.e. the next document update (None = it may or may not have pulled)
    let mut known: Option<usize> = Some(0);
    let mut config_idx = 0usize;
    let mut srv = Server::start(&sb, settings_of(0), Some(strace_wrapper(&trace_file, TRACE)))?;
    let mut open = [false; 4];
    let mut texts: Vec<String> = vec![String::new(); 4];
    let (mut saves, mut commands) = (0, 0);
    let mut version = 1;
    for st in &c.steps {
        // bookkeeping of what the server knows, decided before the step runs
        let pulls = match st {
            Step::Open { doc, .. } => !open[*doc as usize % 4],
            Step::Change { doc, .. } | Step::Save { doc } => open[*doc as usize % 4],
            Step::Config { .. } | Step::DeepPath { .. } => true,
            _ => false,
        };
        let may_pull = matches!(st, Step::OddUri { .. } | Step::Ignore { .. } | Step::CodeActions { .. } | Step::Record | Step::DeleteFile { .. } | Step::Close { .. });
        match st {
            Step::Open { doc, text } => {
                let i = *doc as usize % 4;
                if open[i] {
                    continue;
                }
                let t = TEXTS[*text as usize % TEXTS.len()].to_string();
                std::fs::write(sb.ws_file(DOCS[i].0), &t).map_err(|e| LspError::Protocol(e.to_string()))?;
                srv.open(&sb.uri(DOCS[i].0), DOCS[i].1, &t)?;
                open[i] = true;
                texts[i] = t;
            }
            Step::Change { doc, text } => {
                let i = *doc as usize % 4;
                if !open[i] {
                    continue;
                }
                version += 1;
                let t = TEXTS[*text as usize % TEXTS.len()].to_string();
                srv.change(&sb.uri(DOCS[i].0), version, &t)?;
                texts[i] = t;
            }
            Step::Save { doc } => {
                let i = *doc as usize % 4;
                if !open[i] {
                    continue;
                }
                std::fs::write(sb.ws_file(DOCS[i].0), &texts[i]).map_err(|e| LspError::Protocol(e.to_string()))?;
                let uri = sb.uri(DOCS[i].0);
                let before = srv.publications_for(&uri);
                srv.notify("textDocument/didSave", json!({"textDocument": {"uri": uri}}))?;
                srv.pump_until(Duration::from_secs(60), "publication after didSave", |s| s.publications_for(&uri) > before)?;
            }
            Step::Close { doc } => {
                let i = *doc as usize % 4;
                if open[i] {
                    srv.close(&sb.uri(DOCS[i].0))?;
                    open[i] = false;
                }
            }
            Step::AddUser { doc } | Step::AddFile { doc } => {
                let i = *doc as usize % 4;
                if !open[i] {
                    continue;
                }
                std::fs::write(sb.ws_file(DOCS[i].0), &texts[i]).map_err(|e| LspError::Protocol(e.to_string()))?;
                let cmd = if matches!(st, Step::AddUser { .. }) { "HarperAddToUserDict" } else { "HarperAddToFileDict" };
                let uri = sb.uri(DOCS[i].0);
                srv.execute_and_publish(cmd, json!([format!("zqword{}", saves), uri]), &uri)?;
                let blank_paths = odd_paths(config_idx);
                if let (Some(g), false) = (known, blank_paths) {
                    added.push((format!("zqword{}", saves), matches!(st, Step::AddUser { .. }), g));
                }
                // the command re-checks the document afterwards, which pulls the configuration
                known = Some(paths_gen.get());
                saves += 1;
                commands += 1;
            }
            Step::Ignore { doc } => {
                let i = *doc as usize % 4;
                if !open[i] {
                    continue;
                }
                let uri = sb.uri(DOCS[i].0);
                let cur = srv.last_publication(&uri).cloned().unwrap_or_default();
                let Some(d) = cur.first().cloned() else { continue };
                let acts = srv.code_actions(&uri, d.start, d.end)?;
                if let Some(lint) = acts.as_array().and_then(|a| a.iter().find(|x| x["command"].as_str() == Some("HarperIgnoreLint"))).map(|x| x["arguments"][1].clone()) {
                    srv.execute_and_publish("HarperIgnoreLint", json!([uri, lint]), &uri)?;
                    commands += 1;
                }
            }
            Step::Record => {
                srv.execute("HarperRecordLint", json!(["{\"Lint\":{\"kind\":\"Spelling\",\"context\":[]}}"]))?;
                commands += 1;
            }
            Step::Config { idx } => {
                for i in 0..4 {
                    if open[i] {
                        std::fs::write(sb.ws_file(DOCS[i].0), &texts[i]).map_err(|e| LspError::Protocol(e.to_string()))?;
                    }
                }
                config_idx = *idx as usize;
                if CONFIGS[config_idx % CONFIGS.len()].contains("Path\": \"\"") {
                    ctx.class("empty_string_path_setting");
                }
                if CONFIGS[config_idx % CONFIGS.len()].contains("<DIR>") {
                    ctx.class("user_dictionary_setting_names_a_directory");
                }
                let settings = settings_of(*idx as usize);
                srv.settings = settings.clone();
                let before: Vec<usize> = (0..4).map(|i| srv.publications_for(&sb.uri(DOCS[i].0))).collect();
                srv.notify("workspace/didChangeConfiguration", json!({"settings": settings}))?;
                for i in 0..4 {
                    if open[i] {
                        let uri = sb.uri(DOCS[i].0);
                        let b = before[i];
                        srv.pump_until(Duration::from_secs(60), "publication after didChangeConfiguration", |s| s.publications_for(&uri) > b)?;
                    }
                }
            }
            Step::CodeActions { doc } => {
                let i = *doc as usize % 4;
                if open[i] {
                    srv.code_actions(&sb.uri(DOCS[i].0), (0, 0), (0, 5))?;
                }
            }
            Step::OddUri { which, text } => {
                let traversal = format!("file://{}/..%2F..%2F..%2F..%2Foutside%2Fleak.md", sb.ws_file("").display());
                let encoded_sep = format!("file://{}/sub%2Fdir%2Fnote.md", sb.ws_file("").display());
                let uri: &str = match *which as usize % (ODD_URIS.len() + 2) {
                    k if k < ODD_URIS.len() => ODD_URIS[k],
                    k if k == ODD_URIS.len() => &traversal,
                    _ => &encoded_sep,
                };
                let t = TEXTS[*text as usize % TEXTS.len()];
                // these may or may not be accepted; whatever happens must stay on this machine
                srv.notify("textDocument/didOpen", json!({"textDocument": {"uri": uri, "languageId": "markdown", "version": 1, "text": t}}))?;
                srv.settle(Duration::from_millis(150))?;
                srv.notify("textDocument/didChange", json!({"textDocument": {"uri": uri, "version": 2}, "contentChanges": [{"text": t}]}))?;
                srv.notify("textDocument/didSave", json!({"textDocument": {"uri": uri}}))?;
                srv.settle(Duration::from_millis(150))?;
                for cmd in ["HarperAddToFileDict", "HarperAddToUserDict"] {
                    let id = srv.request("workspace/executeCommand", json!({"command": cmd, "arguments": [format!("zqodd{saves}"), uri]}))?;
                    // the server may answer, fail or (on unparsable URIs) die with the request; do not insist
                    let _ = srv.wait_response(id, Duration::from_secs(5));
                    saves += 1;
                }
                srv.notify("textDocument/didClose", json!({"textDocument": {"uri": uri}}))?;
                srv.settle(Duration::from_millis(100))?;
                ctx.class("odd_uri");
            }
            Step::DeepPath { shape, text } => {
                // (directories, length of each name)
                let (n, len) = [(8usize, 40usize), (2, 150), (5, 48), (3, 40), (1, 200), (6, 36)][*shape as usize % 6];
                let mut rel = PathBuf::new();
                for k in 0..n {
                    rel.push(format!("{}{}", (b'a' + k as u8) as char, "x".repeat(len - 1)));
                }
                let dir = sb.ws_file("deep").join(&rel);
                std::fs::create_dir_all(&dir).map_err(|e| LspError::Protocol(e.to_string()))?;
                let file = dir.join("notes.md");
                let t = TEXTS[*text as usize % TEXTS.len()];
                std::fs::write(&file, t).map_err(|e| LspError::Protocol(e.to_string()))?;
                let uri = format!("file://{}", file.display());
                srv.open(&uri, "markdown", t)?;
                for cmd in ["HarperAddToFileDict", "HarperAddToUserDict"] {
                    let id = srv.request("workspace/executeCommand", json!({"command": cmd, "arguments": [format!("zqdeep{saves}"), uri]}))?;
                    // saving may fail (file name too long); whatever happens must stay inside the configured directories
                    let _ = srv.wait_response(id, Duration::from_secs(20));
                    saves += 1;
                    commands += 1;
                }
                srv.settle(Duration::from_millis(200))?;
                srv.close(&uri)?;
                ctx.class(if file.as_os_str().len() >= 256 { "document_path_of_256_bytes_or_more" } else { "deep_document_path" });
            }
            Step::SilentPaths => {
                paths_gen.set(1 - paths_gen.get());
                srv.settings = settings_of(config_idx);
                ctx.class("dictionary_paths_changed_without_notification");
                // the next edit of an open document makes the server pull the new paths; words
                // added after that belong into the new dictionaries
                if let Some(i) = (0..4).find(|&i| open[i]) {
                    version += 1;
                    std::fs::write(sb.ws_file(DOCS[i].0), &texts[i]).map_err(|e| LspError::Protocol(e.to_string()))?;
                    let uri = sb.uri(DOCS[i].0);
                    srv.change(&uri, version, &texts[i].clone())?;
                    known = Some(paths_gen.get());
                    let blank_paths = odd_paths(config_idx);
                    for cmd in ["HarperAddToFileDict", "HarperAddToUserDict"] {
                        srv.execute_and_publish(cmd, json!([format!("zqword{}", saves), uri]), &uri)?;
                        if !blank_paths {
                            added.push((format!("zqword{}", saves), cmd == "HarperAddToUserDict", paths_gen.get()));
                        }
                        saves += 1;
                        commands += 1;
                    }
                    ctx.class("words_added_after_the_server_pulled_the_new_paths");
                }
            }
            Step::DeleteFile { doc } => {
                let i = *doc as usize % 4;
                let was = open[i];
                let uri = sb.uri(DOCS[i].0);
                let before = srv.publications_for(&uri);
                let _ = std::fs::remove_file(sb.ws_file(DOCS[i].0));
                srv.notify("workspace/didChangeWatchedFiles", json!({"changes": [{"uri": uri, "type": 3}]}))?;
                if was {
                    srv.pump_until(Duration::from_secs(60), "publication after delete", |s| s.publications_for(&uri) > before)?;
                    open[i] = false;
                }
            }
        }
        if pulls {
            known = Some(paths_gen.get());
        } else if may_pull && known != Some(paths_gen.get()) {
            known = None;
        }
    }
    srv.shutdown()?;
    let text = std::fs::read_to_string(&trace_file).unwrap_or_default();
    let trace = parse_trace(&text);
    if trace.is_empty() {
        return Err(LspError::Protocol("empty syscall trace".into()));
    }
    let mut allowed = vec![
        sb.user_dict().to_string_lossy().to_string(),
        format!("{}/", sb.file_dict_dir().to_string_lossy()),
        sb.stats().to_string_lossy().to_string(),
        alt_user.to_string_lossy().to_string(),
        format!("{}/", alt_files.to_string_lossy()),
    ];
    let mut dirs = vec![
        sb.user_dict().parent().unwrap().to_string_lossy().to_string(),
        sb.file_dict_dir().to_string_lossy().to_string(),
        sb.stats().parent().unwrap().to_string_lossy().to_string(),
        alt_user.parent().unwrap().to_string_lossy().to_string(),
        alt_files.to_string_lossy().to_string(),
    ];
    // the default locations (settings left blank), below the sandboxed XDG directories
    allowed.push(sb.root.join("config/harper-ls/dictionary.txt").to_string_lossy().to_string());
    allowed.push(format!("{}/", sb.root.join("data/harper-ls/file_dictionaries").to_string_lossy()));
    allowed.push(sb.root.join("data/harper-ls/stats.txt").to_string_lossy().to_string());
    dirs.push(sb.root.join("config/harper-ls").to_string_lossy().to_string());
    dirs.push(sb.root.join("data/harper-ls/file_dictionaries").to_string_lossy().to_string());
    if c.symlinked_user_dict {
        // the file the configured dictionary points to is the configured dictionary
        allowed.push(link_target.to_string_lossy().to_string());
        dirs.push(link_target.parent().unwrap().to_string_lossy().to_string());
    }
    // every added word went to the dictionary configured at that time, and nowhere else
    let holds = |p: &std::path::Path, w: &str| std::fs::read_to_string(p).map(|t| t.lines().any(|l| l == w)).unwrap_or(false);
    let dir_holds = |d: &std::path::Path, w: &str| {
        std::fs::read_dir(d).map(|rd| rd.flatten().any(|e| holds(&e.path(), w))).unwrap_or(false)
    };
    for (w, user, generation) in &added {
        let (here, there): (bool, bool) = if *user {
            let (a, b) = (holds(&sb.user_dict(), w), holds(&alt_user, w));
            if *generation == 0 { (a, b) } else { (b, a) }
        } else {
            let (a, b) = (dir_holds(&sb.file_dict_dir(), w), dir_holds(&alt_files, w));
            if *generation == 0 { (a, b) } else { (b, a) }
        };
        if !here || there {
            return Ok(Err(format!(
                "word {w:?} was added to the {} dictionary while the client reported dictionary paths #{generation}: {} in the dictionary configured then, {} in the other one",
                if *user { "user" } else { "file" },
                if here { "found" } else { "missing" },
                if there { "found" } else { "absent" }
            )));
        }
    }
    // scratch files next to the directory the user-dictionary setting may name
    allowed.push(a_dir.to_string_lossy().to_string());
    let mut findings = audit(&trace, &allowed, &dirs, false, &crate::lsp::ls_binary().to_string_lossy());
    // what is still there at the end: only the configured files themselves (scratch files used
    // while saving must be gone again)
    {
        let exact: Vec<String> = vec![
            sb.user_dict().to_string_lossy().to_string(),
            alt_user.to_string_lossy().to_string(),
            sb.stats().to_string_lossy().to_string(),
            sb.root.join("config/harper-ls/dictionary.txt").to_string_lossy().to_string(),
            sb.root.join("data/harper-ls/stats.txt").to_string_lossy().to_string(),
            link_target.to_string_lossy().to_string(),
        ];
        let file_dirs: Vec<String> = vec![
            format!("{}/", sb.file_dict_dir().to_string_lossy()),
            format!("{}/", alt_files.to_string_lossy()),
            format!("{}/", sb.root.join("data/harper-ls/file_dictionaries").to_string_lossy()),
        ];
        for p in left_behind(&trace) {
            if exact.contains(&p) || file_dirs.iter().any(|d| p.starts_with(d.as_str())) || p == "/dev/null" || p.starts_with("/proc/") {
                continue;
            }
            findings.push(Finding { what: format!("creates {p} and leaves it behind (not one of the configured files)") });
        }
    }
    // the statistics file is written at shutdown
    let wrote_stats = trace.iter().any(|s| s.name.starts_with("open") && s.string_args().first().is_some_and(|p| *p == sb.stats().to_string_lossy()));
    ctx.class_if(saves >= 1, "dictionary_saved");
    ctx.class_if(wrote_stats, "statistics_written_at_shutdown");
    ctx.class_if(commands >= 1, "command_executed");
    ctx.class(format!("syscalls_audited:{}", if trace.len() > 30 { ">30" } else { "<=30" }));
    if saves >= 1 && wrote_stats && commands >= 1 {
        ctx.nontrivial(c);
    }
    if let Some(f) = findings.first() {
        return Ok(Err(format!(
            "harper-ls {} during a session of {} steps ({} findings in {} traced syscalls)",
            f.what,
            c.steps.len(),
            findings.len(),
            trace.len()
        )));
    }
    Ok(Ok(()))
}

pub fn test_session(c: &Session, ctx: &mut CaseCtx) -> Result<(), String> {
    match run_session(c, ctx) {
        Ok(r) => r,
        Err(e) => {
            ctx.infra(e);
            Ok(())
        }
    }
}

fn step() -> BoxedStrategy<Step> {
    prop_oneof![
        5 => (0u8..4, any::<u8>()).prop_map(|(doc, text)| Step::Open { doc, text }),
        4 => (0u8..4, any::<u8>()).prop_map(|(doc, text)| Step::Change { doc, text }),
        2 => (0u8..4).prop_map(|doc| Step::Save { doc }),
        1 => (0u8..4).prop_map(|doc| Step::Close { doc }),
        3 => (0u8..4).prop_map(|doc| Step::AddUser { doc }),
        3 => (0u8..4).prop_map(|doc| Step::AddFile { doc }),
        1 => (0u8..4).prop_map(|doc| Step::Ignore { doc }),
        2 => Just(Step::Record),
        // half of the configuration changes touch the path settings (blank, or naming a directory)
        4 => prop_oneof![any::<u8>(), 5u8..10].prop_map(|idx| Step::Config { idx }),
        1 => (0u8..4).prop_map(|doc| Step::CodeActions { doc }),
        1 => (0u8..4).prop_map(|doc| Step::DeleteFile { doc }),
        3 => (0u8..6, any::<u8>()).prop_map(|(which, text)| Step::OddUri { which, text }),
        3 => (0u8..6, any::<u8>()).prop_map(|(shape, text)| Step::DeepPath { shape, text }),
        3 => Just(Step::SilentPaths),
    ]
    .boxed()
}

// ------------------------------------------------------------------------------------------------
// (b) library worker

/// body of `hv worker c10-lib <seed> <n>`: every front-end, the harper.js API, statistics
pub fn library_worker(seed: u64, n: usize) -> String {
    use proptest::strategy::ValueTree;
    use proptest::test_runner::{Config, RngSeed, TestRunner};
    let mut r = TestRunner::new(Config { rng_seed: RngSeed::Fixed(seed), ..Config::default() });
    let strat = super::docsweep::doc_case_strategy();
    let mut lints = 0usize;
    let mut langs: BTreeSet<String> = BTreeSet::new();
    for _ in 0..n {
        let c = strat.new_tree(&mut r).unwrap().current();
        if super::docsweep::excluded_by_known(&c).is_some() {
            continue;
        }
        if let Ok(ev) = super::docsweep::evaluate(&c) {
            if !ev.lints.is_empty() {
                langs.insert(c.fe.lang.clone());
            }
            lints += ev.lints.len();
        }
    }
    // harper.js API incl. statistics export/import
    let mut linter = harper_wasm::Linter::new(harper_wasm::Dialect::American);
    let text = "This is an test with teh frobnix. Mail me@example.com or see https://example.com/x.".to_string();
    let ls = linter.lint(text.clone(), harper_wasm::Language::Markdown);
    lints += ls.len();
    if let Some(l) = ls.iter().find(|l| l.suggestion_count() > 0) {
        let s = &l.suggestions()[0];
        let _ = linter.apply_suggestion(text.clone(), l, s);
    }
    linter.import_words(vec!["frobnix".to_string()]);
    let stats = linter.generate_stats_file();
    let _ = linter.import_stats_file(stats);
    let _ = linter.export_ignored_lints();
    let _ = harper_wasm::to_title_case("the text being checked never leaves".to_string());
    format!("{{\"lints\": {lints}, \"languages_with_lints\": {}}}", langs.len())
}

fn run_library_worker(run: &mut Run) {
    let n = run.n(1_500, 40_000) as usize;
    let dir = Path::new(crate::core::VERIF_DIR).join("work").join(format!("c10lib-{}", std::process::id()));
    let _ = std::fs::create_dir_all(&dir);
    let trace_file = dir.join("trace.txt");
    let exe = std::env::current_exe().expect("exe");
    let mut cmd = std::process::Command::new("strace");
    cmd.args(&strace_wrapper(&trace_file, TRACE)[1..]);
    cmd.arg(&exe).args(["worker", "c10-lib", &crate::core::mix(run.seed, 0xC10).to_string(), &n.to_string()]).env("HV_CHILD", "1");
    let out = cmd.output();
    let mut st = crate::core::CheckStats::new("library_worker_syscalls");
    match out {
        Ok(o) if o.status.success() => {
            let text = std::fs::read_to_string(&trace_file).unwrap_or_default();
            let trace = parse_trace(&text);
            let findings = audit(&trace, &[], &[], false, &exe.to_string_lossy());
            st.evaluations = n as u64;
            let summary: Value = serde_json::from_slice(&o.stdout).unwrap_or(Value::Null);
            let with_lints = summary["languages_with_lints"].as_u64().unwrap_or(0);
            for i in 0..with_lints {
                st.nontrivial.insert(i);
            }
            st.samples.push(json!({"documents": n, "worker_summary": summary, "syscalls_audited": trace.len()}));
            if trace.is_empty() {
                run.infra_problems.push("library worker: empty syscall trace".into());
            }
            run.add_stats(st);
            if with_lints < 10 {
                run.health_problems.push(format!("library worker produced lints in only {with_lints} front-ends"));
            }
            if let Some(f) = findings.first() {
                run.fail(
                    "library_worker_syscalls",
                    json!({"worker_seed": crate::core::mix(run.seed, 0xC10), "documents": n}),
                    format!("the library (parsing/linting/harper.js API/statistics, no server) {} ({} findings)", f.what, findings.len()),
                );
            }
        }
        Ok(o) => run.infra_problems.push(format!("library worker under strace failed: {:?}", o.status)),
        Err(e) => run.infra_problems.push(format!("cannot run strace: {e}")),
    }
    let _ = std::fs::remove_dir_all(&dir);
}

// ------------------------------------------------------------------------------------------------
// TCP mode (loopback listener), thorough tier

fn tcp_session(run: &mut Run) {
    use std::io::{Read, Write};
    let sb = Sandbox::new("c10tcp");
    let trace_file = sb.root.join("trace.txt");
    // is the fixed port free?
    if std::net::TcpListener::bind("127.0.0.1:4000").is_err() {
        run.assumptions.push("TCP-mode session skipped: 127.0.0.1:4000 is in use on this machine".into());
        return;
    }
    let mut cmd = std::process::Command::new("strace");
    cmd.args(&strace_wrapper(&trace_file, TRACE)[1..]);
    cmd.arg(crate::lsp::ls_binary())
        .env("HOME", sb.root.join("home"))
        .env("XDG_CONFIG_HOME", sb.root.join("config"))
        .env("XDG_DATA_HOME", sb.root.join("data"))
        .stdin(std::process::Stdio::null())
        .stdout(std::process::Stdio::null())
        .stderr(std::process::Stdio::null());
    let Ok(mut child) = cmd.spawn() else {
        run.infra_problems.push("cannot start harper-ls in TCP mode".into());
        return;
    };
    let mut stream = None;
    for _ in 0..100 {
        std::thread::sleep(Duration::from_millis(50));
        if let Ok(s) = std::net::TcpStream::connect("127.0.0.1:4000") {
            stream = Some(s);
            break;
        }
    }
    let mut ok = false;
    if let Some(mut s) = stream {
        let _ = s.set_read_timeout(Some(Duration::from_secs(10)));
        let send = |s: &mut std::net::TcpStream, v: Value| {
            let b = v.to_string();
            let _ = s.write_all(format!("Content-Length: {}\r\n\r\n{}", b.len(), b).as_bytes());
        };
        send(&mut s, json!({"jsonrpc": "2.0", "id": 1, "method": "initialize", "params": {"capabilities": {}}}));
        let mut buf = [0u8; 4096];
        let _ = s.read(&mut buf);
        send(&mut s, json!({"jsonrpc": "2.0", "method": "initialized", "params": {}}));
        send(&mut s, json!({"jsonrpc": "2.0", "method": "textDocument/didOpen", "params": {"textDocument": {"uri": "untitled:x", "languageId": "plaintext", "version": 1, "text": "This is an test."}}}));
        // answer whatever the server asks (configuration pulls) with null results for a moment
        let t0 = std::time::Instant::now();
        let mut acc = Vec::new();
        while t0.elapsed() < Duration::from_secs(3) {
            match s.read(&mut buf) {
                Ok(0) => break,
                Ok(n) => {
                    acc.extend_from_slice(&buf[..n]);
                    let txt = String::from_utf8_lossy(&acc).to_string();
                    for (i, _) in txt.match_indices("\"method\":\"workspace/configuration\"") {
                        let _ = i;
                    }
                    // reply to every request id we have seen and not yet answered
                    for part in txt.split("Content-Length:").skip(1) {
                        if let Some(b) = part.find('{') {
                            if let Ok(v) = serde_json::from_str::<Value>(part[b..].trim_end_matches(|c: char| c != '}')) {
                                if v.get("method").is_some() && v.get("id").is_some() {
                                    send(&mut s, json!({"jsonrpc": "2.0", "id": v["id"], "result": [null]}));
                                }
                                if v["method"] == "textDocument/publishDiagnostics" {
                                    ok = true;
                                }
                            }
                        }
                    }
                    acc.clear();
                    if ok {
                        break;
                    }
                }
                Err(_) => break,
            }
        }
        send(&mut s, json!({"jsonrpc": "2.0", "id": 99, "method": "shutdown"}));
        std::thread::sleep(Duration::from_millis(300));
        send(&mut s, json!({"jsonrpc": "2.0", "method": "exit"}));
        drop(s);
    }
    std::thread::sleep(Duration::from_millis(300));
    let _ = child.kill();
    let _ = child.wait();
    let text = std::fs::read_to_string(&trace_file).unwrap_or_default();
    let trace = parse_trace(&text);
    let allowed = vec![sb.root.join("data").to_string_lossy().to_string(), sb.root.join("config").to_string_lossy().to_string()];
    let findings = audit(&trace, &allowed, &allowed, true, &crate::lsp::ls_binary().to_string_lossy());
    let mut st = crate::core::CheckStats::new("tcp_mode_session");
    st.evaluations = 1;
    if ok {
        st.nontrivial.insert(1);
    }
    st.samples.push(json!({"published_diagnostics_over_tcp": ok, "syscalls_audited": trace.len(), "network_syscalls": trace.iter().filter(|s| matches!(s.name.as_str(), "socket" | "bind" | "listen" | "accept" | "accept4" | "connect")).map(|s| format!("{}({})", s.name, crate::core::truncate(&s.args, 60))).collect::<Vec<_>>()}));
    run.add_stats(st);
    if let Some(f) = findings.first() {
        run.fail("tcp_mode_session", json!({"mode": "tcp"}), format!("harper-ls in TCP mode {} ({} findings)", f.what, findings.len()));
    }
}

/// TCP mode while the fixed port is taken (a second editor window): whatever the server does
/// instead, it must not listen anywhere but on the loopback address.
fn tcp_busy_port_session(run: &mut Run) {
    let sb = Sandbox::new("c10busy");
    let trace_file = sb.root.join("trace.txt");
    // hold the port ourselves; if somebody else already does, it is just as busy
    let _holder = std::net::TcpListener::bind("127.0.0.1:4000");
    let mut cmd = std::process::Command::new("strace");
    cmd.args(&strace_wrapper(&trace_file, TRACE)[1..]);
    cmd.arg(crate::lsp::ls_binary())
        .env("HOME", sb.root.join("home"))
        .env("XDG_CONFIG_HOME", sb.root.join("config"))
        .env("XDG_DATA_HOME", sb.root.join("data"))
        .stdin(std::process::Stdio::null())
        .stdout(std::process::Stdio::null())
        .stderr(std::process::Stdio::null());
    let Ok(mut child) = cmd.spawn() else {
        run.infra_problems.push("cannot start harper-ls in TCP mode".into());
        return;
    };
    let t0 = std::time::Instant::now();
    while t0.elapsed() < Duration::from_secs(3) {
        if let Ok(Some(_)) = child.try_wait() {
            break;
        }
        std::thread::sleep(Duration::from_millis(50));
    }
    let _ = child.kill();
    let _ = child.wait();
    let text = std::fs::read_to_string(&trace_file).unwrap_or_default();
    let trace = parse_trace(&text);
    let allowed = vec![sb.root.join("data").to_string_lossy().to_string(), sb.root.join("config").to_string_lossy().to_string()];
    let findings = audit(&trace, &allowed, &allowed, true, &crate::lsp::ls_binary().to_string_lossy());
    let refused = trace.iter().any(|s| s.name == "bind" && s.failed() && s.decoded_args().contains("htons(4000)"));
    let mut st = crate::core::CheckStats::new("tcp_mode_port_in_use");
    st.evaluations = 1;
    if refused {
        st.nontrivial.insert(1);
    }
    st.samples.push(json!({"bind_to_port_4000_refused": refused, "syscalls_audited": trace.len(), "network_syscalls": trace.iter().filter(|s| matches!(s.name.as_str(), "socket" | "bind" | "listen" | "accept" | "accept4" | "connect")).map(|s| format!("{}({}){}", s.name, crate::core::truncate(&s.decoded_args(), 80), if s.failed() { " = failed" } else { "" })).collect::<Vec<_>>()}));
    run.add_stats(st);
    if let Some(f) = findings.first() {
        run.fail("tcp_mode_port_in_use", json!({"mode": "tcp", "port_4000": "in use"}), format!("harper-ls in TCP mode with port 4000 in use {} ({} findings)", f.what, findings.len()));
    }
}

// ------------------------------------------------------------------------------------------------
// static auxiliary: resolved dependency set of the shipped crates

const DENY: &[&str] = &[
    "reqwest", "hyper", "hyper-util", "hyper-tls", "hyper-rustls", "ureq", "curl", "curl-sys", "isahc", "surf", "attohttpc", "minreq", "native-tls",
    "rustls", "openssl", "openssl-sys", "trust-dns-resolver", "trust-dns-proto", "hickory-resolver", "hickory-proto", "tungstenite", "tokio-tungstenite",
    "h2", "h3", "quinn", "awc", "actix-web", "tonic", "lettre", "ssh2", "libgit2-sys", "git2", "sentry", "opentelemetry-otlp", "dns-lookup", "async-h1",
    "http-client", "webpki", "webpki-roots", "socket2-0.3",
];

fn dependency_scan(run: &mut Run) {
    let out = std::process::Command::new("cargo")
        .args(["metadata", "--format-version", "1", "--offline", "--manifest-path"])
        .arg(crate::core::repo_dir().join("Cargo.toml"))
        .env("CARGO_NET_OFFLINE", "true")
        .current_dir(crate::core::VERIF_DIR)
        .output();
    let Ok(o) = out else {
        run.assumptions.push("dependency scan skipped: cargo metadata could not be run".into());
        return;
    };
    if !o.status.success() {
        run.assumptions.push("dependency scan skipped: cargo metadata failed".into());
        return;
    }
    let Ok(v) = serde_json::from_slice::<Value>(&o.stdout) else { return };
    let pkgs = v["packages"].as_array().cloned().unwrap_or_default();
    let name_of = |id: &str| pkgs.iter().find(|p| p["id"] == id).and_then(|p| p["name"].as_str().map(String::from)).unwrap_or_default();
    let nodes = v["resolve"]["nodes"].as_array().cloned().unwrap_or_default();
    let mut closure: BTreeSet<String> = BTreeSet::new();
    let mut stack: Vec<String> = nodes
        .iter()
        .filter_map(|n| n["id"].as_str().map(String::from))
        .filter(|id| matches!(name_of(id).as_str(), "harper-ls" | "harper-cli" | "harper-wasm" | "harper-core"))
        .collect();
    while let Some(id) = stack.pop() {
        if !closure.insert(id.clone()) {
            continue;
        }
        if let Some(n) = nodes.iter().find(|n| n["id"] == id.as_str()) {
            for d in n["deps"].as_array().cloned().unwrap_or_default() {
                // normal and build dependencies (dev-dependencies are not shipped)
                let kinds = d["dep_kinds"].as_array().cloned().unwrap_or_default();
                if kinds.iter().any(|k| k["kind"].is_null() || k["kind"] == "build") {
                    if let Some(p) = d["pkg"].as_str() {
                        stack.push(p.to_string());
                    }
                }
            }
        }
    }
    let names: BTreeSet<String> = closure.iter().map(|id| name_of(id)).collect();
    let bad: Vec<&String> = names.iter().filter(|n| DENY.contains(&n.as_str())).collect();
    run.extra.insert(
        "dependency_scan".into(),
        json!({"note": "static auxiliary, not generated-input search", "shipped_crates_closure_size": names.len(), "network_client_crates_found": bad}),
    );
    if let Some(b) = bad.first() {
        run.fail(
            "dependency_scan",
            json!({"crate": b}),
            format!("the resolved dependency set of the shipped crates contains the network client crate `{b}`"),
        );
    }
}

pub fn run(run: &mut Run) {
    run.rule = "(a) generated harper-ls sessions (4 documents incl. URLs, e-mail addresses and host names; open/change/save/close/delete, AddToUserDict, AddToFileDict, IgnoreLint, RecordLint, codeAction, didChangeConfiguration, shutdown; never HarperOpen) each run under strace -f: no socket/connect/send*/bind/listen, no resolver or TLS files, no exec of another program, and every create/write/rename/unlink/mkdir targets the configured dictionary or statistics paths; documents with odd URIs and documents whose absolute path has 150-400 bytes included; in 3 of 8 sessions the user dictionary starts out with bytes that are not UTF-8 (Latin-1, UTF-16, a truncated character); in 40% of the sessions the user dictionary is a relative symbolic link (only the link's target may be written, nothing relative to the working directory); the client may start reporting other dictionary paths without a notification, and every added word must be found in the dictionary configured at that time and nowhere else; one TCP-mode session (only the 127.0.0.1:4000 listener and its accepted connection) and one TCP-mode start while port 4000 is in use (no listener anywhere else). (b) a worker process pushing generated documents through all front-ends, the harper.js API and statistics export/import under strace: no network syscall and nothing opened for writing. Non-trivial session = >=1 dictionary save, >=1 command and the statistics write at shutdown. Auxiliary (static): cargo metadata closure of harper-ls/harper-cli/harper-wasm scanned against a deny-list of network client crates.".into();
    run.threads = run.threads.min(6);
    run.max_shrink_iters = 40;
    let n = run.n(16, 200);
    run.prop(
        "language_server_sessions",
        n,
        || {
            (proptest::collection::vec(step(), 4..16), prop::bool::weighted(0.4), 0u8..8)
                .prop_map(|(mut steps, symlinked_user_dict, user_dict_bytes)| {
                    // every session opens something first so that commands have a target
                    steps.insert(0, Step::Open { doc: 1, text: 0 });
                    Session { steps, tcp: false, symlinked_user_dict, user_dict_bytes }
                })
                .boxed()
        },
        test_session,
    );
    run.require_class("language_server_sessions", "dictionary_saved", (n / 2) as u64);
    run.require_class("language_server_sessions", "statistics_written_at_shutdown", (n / 2) as u64);
    // (16 sessions in the quick tier: the requirement is "not absent", the weights make each of
    // these shapes occur in a third to a half of the sessions)
    run.require_class("language_server_sessions", "document_path_of_256_bytes_or_more", (n / 16) as u64);
    run.require_class("language_server_sessions", "user_dictionary_setting_names_a_directory", (n / 16) as u64);
    run.require_class("language_server_sessions", "user_dictionary_is_a_relative_symbolic_link", (n / 16) as u64);
    run.require_class("language_server_sessions", "user_dictionary_is_not_valid_utf8", (n / 16) as u64);
    run.require_class("language_server_sessions", "dictionary_paths_changed_without_notification", (n / 16) as u64);
    run.require_class("language_server_sessions", "words_added_after_the_server_pulled_the_new_paths", (n / 16) as u64);
    run_library_worker(run);
    tcp_session(run);
    tcp_busy_port_session(run);
    dependency_scan(run);
}

pub fn replay(check: &str, case: Value, _run: &mut Run) -> Result<(), String> {
    if check != "language_server_sessions" {
        return Err("re-run the check: this sub-check has no single-case replay".into());
    }
    let c: Session = serde_json::from_value(case).map_err(|e| e.to_string())?;
    let mut ctx = CaseCtx::default();
    let r = test_session(&c, &mut ctx);
    if let Some(i) = ctx.classes.iter().find(|c| c.starts_with("INFRA")) {
        return Err(format!("infrastructure problem during replay: {i}"));
    }
    r
}

#[allow(dead_code)]
fn _p(_: PathBuf) {}
