//! C15 — all dictionary back-ends agree, and fuzzy search returns true near matches.

use std::sync::Arc;

use harper_core::{Dictionary, FstDictionary, MergedDictionary, MutableDictionary, WordMetadata};
use proptest::prelude::*;
use serde::{Deserialize, Serialize};
use serde_json::Value;

use crate::core::{CaseCtx, Run};
use crate::generators as g;
use crate::oracle::{chars, lev, string};

fn normalize(c: &[char]) -> Vec<char> {
    c.iter()
        .map(|ch| match ch {
            '’' | '‘' | '＇' => '\'',
            o => *o,
        })
        .collect()
}

fn lower(c: &[char]) -> Vec<char> {
    c.iter().flat_map(|ch| ch.to_lowercase()).collect()
}

// ------------------------------------------------------------------------------------------------
// (a) curated back-ends answer identically

struct Backends {
    fst: Arc<FstDictionary>,
    mutable: Arc<MutableDictionary>,
    merged1: MergedDictionary,
    merged2: MergedDictionary,
}

fn backends() -> &'static Backends {
    static B: std::sync::OnceLock<Backends> = std::sync::OnceLock::new();
    B.get_or_init(|| {
        let fst = FstDictionary::curated();
        let mutable = MutableDictionary::curated();
        let mut merged1 = MergedDictionary::new();
        merged1.add_dictionary(fst.clone());
        let mut merged2 = MergedDictionary::new();
        merged2.add_dictionary(mutable.clone());
        merged2.add_dictionary(fst.clone());
        Backends {
            fst,
            mutable,
            merged1,
            merged2,
        }
    })
}

fn answers(d: &dyn Dictionary, q: &[char]) -> (bool, bool, Option<WordMetadata>, Option<String>) {
    (
        d.contains_word(q),
        d.contains_exact_word(q),
        d.get_word_metadata(q).cloned(),
        d.get_correct_capitalization_of(q).map(string),
    )
}

fn answers_str(d: &dyn Dictionary, q: &str) -> (bool, bool, Option<WordMetadata>) {
    (
        d.contains_word_str(q),
        d.contains_exact_word_str(q),
        d.get_word_metadata_str(q).cloned(),
    )
}

pub fn test_curated_query(q: &String, ctx: &mut CaseCtx) -> Result<(), String> {
    let b = backends();
    let qc = chars(q);
    let named: [(&str, &dyn Dictionary); 4] = [
        ("FstDictionary", &*b.fst),
        ("MutableDictionary", &*b.mutable),
        ("Merged[fst]", &b.merged1),
        ("Merged[mutable,fst]", &b.merged2),
    ];
    let reference = answers(named[1].1, &qc);
    ctx.class_if(reference.0, "member");
    ctx.class_if(reference.0 && !reference.1, "member_other_capitalisation");
    ctx.class_if(!q.is_ascii(), "non_ascii");
    ctx.class_if(q.contains(['’', '‘', '＇']), "apostrophe_variant");
    if reference.0 != reference.1 || !q.is_ascii() || !reference.0 {
        ctx.nontrivial(q);
    }
    for (name, d) in named {
        let a = answers(d, &qc);
        if a != reference {
            return Err(format!(
                "{name} answers {:?} for {q:?}; MutableDictionary answers {:?}",
                (a.0, a.1, a.3),
                (reference.0, reference.1, &reference.3)
            ));
        }
        let s = answers_str(d, q);
        if (s.0, s.1, &s.2) != (a.0, a.1, &a.2) {
            return Err(format!(
                "{name}: *_str variants answer (contains={}, exact={}, metadata={}) but the char-slice variants answer (contains={}, exact={}, metadata={}) for {q:?}",
                s.0, s.1, s.2.is_some(), a.0, a.1, a.2.is_some()
            ));
        }
    }
    Ok(())
}

fn curated_query() -> BoxedStrategy<String> {
    let recase = |w: String, mode: u8| -> String {
        match mode % 5 {
            0 => w,
            1 => w.to_uppercase(),
            2 => w.to_lowercase(),
            3 => {
                let mut c = w.chars();
                match c.next() {
                    Some(f) => f.to_uppercase().collect::<String>() + c.as_str(),
                    None => w,
                }
            }
            _ => w
                .chars()
                .enumerate()
                .map(|(i, ch)| if i % 2 == 1 { ch.to_ascii_uppercase() } else { ch })
                .collect(),
        }
    };
    prop_oneof![
        5 => (g::dict_word(), 0u8..5).prop_map(move |(w, m)| recase(w, m)),
        2 => g::near_word(),
        2 => (g::dict_word(), g::sel_str(&["’", "‘", "＇"])).prop_map(|(w, a)| w.replace('\'', &a)),
        1 => (g::dict_word()).prop_filter("has apostrophe", |w| w.contains('\'')).prop_map(|w| w.replace('\'', "’")),
        1 => g::unicode_run(),
        1 => Just(String::new()),
        1 => (1usize..255).prop_map(|n| "a".repeat(n)),
        1 => g::word_like(),
    ]
    .boxed()
}

// ------------------------------------------------------------------------------------------------
// (b) fuzzy search on small / random dictionaries and the curated one

#[derive(Debug, Clone, Serialize, Deserialize, PartialEq, Eq, Hash)]
pub struct FuzzyCase {
    /// None = curated dictionary
    pub words: Option<Vec<String>>,
    pub query: String,
    pub bound: u8,
    pub cap: usize,
}

fn build_small(words: &[String]) -> (MutableDictionary, FstDictionary) {
    let mut m = MutableDictionary::new();
    m.extend_words(words.iter().map(|w| (chars(w), WordMetadata::default())));
    let f: FstDictionary = m.clone().into();
    (m, f)
}

/// Constructed dictionaries (also with typographic apostrophes in the *stored* words, as a user
/// dictionary written by an editor has them): the mutable back-end, the FST built from it and
/// merged dictionaries around either must answer every query alike.
pub fn test_small_backends(c: &MergedCase, ctx: &mut CaseCtx) -> Result<(), String> {
    let words: Vec<String> = c.children.iter().flatten().cloned().collect();
    if words.is_empty() {
        return Ok(());
    }
    let (m, f) = build_small(&words);
    let (m, f) = (Arc::new(m), Arc::new(f));
    let mut mm = MergedDictionary::new();
    mm.add_dictionary(m.clone());
    let mut mf = MergedDictionary::new();
    mf.add_dictionary(f.clone());
    let stored_typographic = words.iter().any(|w| w.contains(['’', '‘', '＇']));
    ctx.class_if(stored_typographic, "stored_word_with_typographic_apostrophe");
    let mut queries: Vec<String> = vec![c.query.clone()];
    for w in &words {
        queries.push(w.clone());
        queries.push(w.replace(['’', '‘', '＇'], "'"));
        queries.push(w.replace('\'', "’"));
        queries.push(w.to_lowercase());
    }
    queries.sort();
    queries.dedup();
    for q in &queries {
        let qc = chars(q);
        let reference = answers(&*m, &qc);
        if reference.0 && stored_typographic {
            ctx.nontrivial(&(q, &words));
        }
        let named: [(&str, &dyn Dictionary); 3] = [("FstDictionary built from it", &*f), ("Merged[mutable]", &mm), ("Merged[fst]", &mf)];
        for (name, d) in named {
            let got = answers(d, &qc);
            if got != reference {
                return Err(format!(
                    "dictionary {:?}, query {q:?}: MutableDictionary answers (contains={}, exact={}, cap={:?}), {name} answers (contains={}, exact={}, cap={:?}){}",
                    words, reference.0, reference.1, reference.3, got.0, got.1, got.3,
                    if got.2 != reference.2 { "; metadata differs" } else { "" }
                ));
            }
            let st = answers_str(d, q);
            if (st.0, st.1) != (reference.0, reference.1) {
                return Err(format!(
                    "dictionary {:?}, query {q:?}: {name} *_str variants answer (contains={}, exact={}), MutableDictionary (contains={}, exact={})",
                    words, st.0, st.1, reference.0, reference.1
                ));
            }
        }
    }
    Ok(())
}

fn check_fuzzy_results(
    name: &str,
    d: &dyn Dictionary,
    members: Option<&[Vec<char>]>,
    q: &[char],
    bound: u8,
    cap: usize,
    results: &[(Vec<char>, u8)],
) -> Result<(), String> {
    let nq = normalize(q);
    let forms: [Vec<char>; 4] = [q.to_vec(), lower(q), nq.clone(), lower(&nq)];
    if results.len() > cap {
        return Err(format!(
            "{name}: {} results for cap {cap} (query {:?}, bound {bound})",
            results.len(),
            string(q)
        ));
    }
    let mut last = 0u8;
    for (w, dist) in results {
        // membership: the dictionary's own word list where we have it (small dictionaries),
        // exact lookup for the curated dictionary
        if members.is_none() && !d.contains_exact_word(w) {
            return Err(format!(
                "{name}: fuzzy result {:?} for query {:?} is not a word of the dictionary",
                string(w),
                string(q)
            ));
        }
        if let Some(ms) = members {
            if !ms.iter().any(|m| m == w) {
                return Err(format!(
                    "{name}: fuzzy result {:?} is not in the word list",
                    string(w)
                ));
            }
        }
        if *dist > bound {
            return Err(format!(
                "{name}: result {:?} reported at distance {dist} > bound {bound} (query {:?})",
                string(w),
                string(q)
            ));
        }
        let truth: Vec<usize> = forms.iter().map(|f| lev(f, w)).collect();
        if !truth.contains(&(*dist as usize)) {
            return Err(format!(
                "{name}: result {:?} for query {:?} reported at distance {dist}, true Levenshtein distances to the query / its lower-case form are {:?}",
                string(w),
                string(q),
                &truth[..2]
            ));
        }
        if *dist < last {
            return Err(format!(
                "{name}: results not ordered by distance (query {:?}): {:?}",
                string(q),
                results.iter().map(|(w, d)| (string(w), *d)).collect::<Vec<_>>()
            ));
        }
        last = *dist;
    }
    Ok(())
}

pub fn test_fuzzy(c: &FuzzyCase, ctx: &mut CaseCtx) -> Result<(), String> {
    let q = chars(&c.query);
    let is_lower = lower(&q) == q;
    let small;
    let (mutable, fst, members): (&dyn Dictionary, &dyn Dictionary, Vec<Vec<char>>) = match &c.words {
        Some(ws) => {
            small = build_small(ws);
            let members: Vec<Vec<char>> = small.0.words_iter().map(|w| w.to_vec()).collect();
            (&small.0, &small.1, members)
        }
        None => {
            let b = backends();
            (&*b.mutable, &*b.fst, vec![])
        }
    };
    let curated = c.words.is_none();
    let member_list: Vec<Vec<char>> = if curated {
        g::harvest().dict_words.iter().map(|w| chars(w)).collect()
    } else {
        members.clone()
    };
    let collect = |d: &dyn Dictionary| -> Vec<(Vec<char>, u8)> {
        d.fuzzy_match(&q, c.bound, c.cap)
            .into_iter()
            .map(|r| (r.word.to_vec(), r.edit_distance))
            .collect()
    };
    let rm = collect(mutable);
    let rf = collect(fst);
    let via_str: Vec<(Vec<char>, u8)> = fst
        .fuzzy_match_str(&c.query, c.bound, c.cap)
        .into_iter()
        .map(|r| (r.word.to_vec(), r.edit_distance))
        .collect();
    ctx.class_if(is_lower, "lower_case_query");
    ctx.class_if(curated, "curated");
    ctx.class_if(!rm.is_empty(), "has_results");
    ctx.class_if(c.query.contains('\''), "query_apostrophe");
    let differs = !member_list.iter().any(|m| *m == q);
    if differs && member_list.len() >= 2 {
        ctx.nontrivial(c);
    }
    let mem = if curated { None } else { Some(&members[..]) };
    check_fuzzy_results("MutableDictionary", mutable, mem, &q, c.bound, c.cap, &rm)?;
    check_fuzzy_results("FstDictionary", fst, mem, &q, c.bound, c.cap, &rf)?;
    check_fuzzy_results("FstDictionary(str)", fst, mem, &q, c.bound, c.cap, &via_str)?;
    // completeness for lower-case queries
    if is_lower {
        let nq = normalize(&q);
        let mut truth: Vec<String> = member_list
            .iter()
            .filter(|w| {
                let lo = nq.len().saturating_sub(c.bound as usize);
                let hi = nq.len() + c.bound as usize;
                (lo..=hi).contains(&w.len()) && lev(&nq, w) <= c.bound as usize
            })
            .map(|w| string(w))
            .collect();
        truth.sort();
        truth.dedup();
        for (name, res) in [("MutableDictionary", &rm), ("FstDictionary", &rf)] {
            if res.len() < c.cap {
                let mut got: Vec<String> = res.iter().map(|(w, _)| string(w)).collect();
                got.sort();
                got.dedup();
                if got != truth {
                    let missed: Vec<&String> = truth.iter().filter(|t| !got.contains(t)).collect();
                    return Err(format!(
                        "{name}: lower-case query {:?} bound {} cap {}: returned {} words, {} lie within the bound; missed {:?}",
                        c.query,
                        c.bound,
                        c.cap,
                        got.len(),
                        truth.len(),
                        missed.iter().take(5).collect::<Vec<_>>()
                    ));
                }
            }
        }
    }
    Ok(())
}

// ------------------------------------------------------------------------------------------------
// (d) merged dictionary = union of its parts, first child wins

#[derive(Debug, Clone, Serialize, Deserialize, PartialEq, Eq, Hash)]
pub struct MergedCase {
    pub children: Vec<Vec<String>>,
    pub query: String,
}

fn child_meta(i: usize) -> WordMetadata {
    WordMetadata {
        common: i & 1 == 1,
        preposition: i & 2 == 2,
        determiner: i == 0,
        ..Default::default()
    }
}

pub fn test_merged(c: &MergedCase, ctx: &mut CaseCtx) -> Result<(), String> {
    let kids: Vec<Arc<MutableDictionary>> = c
        .children
        .iter()
        .enumerate()
        .map(|(i, ws)| {
            let mut m = MutableDictionary::new();
            // in half of the cases the first child plays the curated dictionary: its entries are
            // restricted to one dialect, the other children's (user dictionaries) are not
            let mut meta = child_meta(i);
            if i == 0 && c.query.chars().count() % 2 == 0 {
                meta.dialect = Some(harper_core::Dialect::British);
            }
            m.extend_words(ws.iter().map(|w| (chars(w), meta.clone())));
            Arc::new(m)
        })
        .collect();
    let mut merged = MergedDictionary::new();
    for k in &kids {
        merged.add_dictionary(k.clone());
    }
    let q = chars(&c.query);
    let any_contains = kids.iter().any(|k| k.contains_word(&q));
    let any_exact = kids.iter().any(|k| k.contains_exact_word(&q));
    // union: the first child that knows the letters answers, unless its entry is restricted to a
    // dialect and a later child lists this very spelling (or its lower-case form) without restriction
    let lower_q: Vec<char> = q.iter().flat_map(|c| c.to_lowercase()).collect();
    let first_meta = {
        let mut found: Option<WordMetadata> = None;
        for k in &kids {
            let Some(m) = k.get_word_metadata(&q).cloned() else { continue };
            match &found {
                None => {
                    let free = m.dialect.is_none();
                    found = Some(m);
                    if free {
                        break;
                    }
                }
                Some(_) => {
                    if m.dialect.is_none() && (k.contains_exact_word(&q) || k.contains_exact_word(&lower_q)) {
                        found = Some(m);
                        break;
                    }
                }
            }
        }
        found
    };
    let restricted_and_free = kids.iter().filter_map(|k| k.get_word_metadata(&q)).any(|m| m.dialect.is_some())
        && kids.iter().filter_map(|k| k.get_word_metadata(&q)).any(|m| m.dialect.is_none());
    ctx.class_if(restricted_and_free, "dialect_restricted_in_one_child_free_in_another");
    let first_cap = kids
        .iter()
        .find_map(|k| k.get_correct_capitalization_of(&q).map(string));
    let in_two = kids.iter().filter(|k| k.contains_word(&q)).count() >= 2;
    ctx.class_if(any_contains, "member");
    ctx.class_if(in_two, "in_two_children");
    ctx.class_if(any_contains && !any_exact, "other_capitalisation_only");
    if kids.len() >= 2 && (in_two || (any_contains && !any_exact)) {
        ctx.nontrivial(c);
    }
    let got = answers(&merged, &q);
    let want = (any_contains, any_exact, first_meta, first_cap);
    if got != want {
        return Err(format!(
            "Merged{:?} query {:?}: got (contains={}, exact={}, meta={:?}, cap={:?}), union of parts gives (contains={}, exact={}, meta={:?}, cap={:?})",
            c.children, c.query, got.0, got.1, got.2.map(|m| (m.common, m.preposition, m.determiner)), got.3,
            want.0, want.1, want.2.map(|m| (m.common, m.preposition, m.determiner)), want.3
        ));
    }
    let s = answers_str(&merged, &c.query);
    if (s.0, s.1) != (got.0, got.1) {
        return Err(format!(
            "Merged{:?} query {:?}: *_str variants (contains={}, exact={}) disagree with char-slice variants (contains={}, exact={})",
            c.children, c.query, s.0, s.1, got.0, got.1
        ));
    }
    // fuzzy search: with a cap no child reaches, the words (and distances) the merged dictionary
    // offers are exactly those its children offer; a word listed twice may be offered once
    {
        let bound = (c.query.chars().count() % 3) as u8 + 1;
        let set = |d: &dyn Dictionary| -> std::collections::BTreeSet<(String, u8)> {
            d.fuzzy_match(&q, bound, 100).into_iter().map(|r| (string(r.word), r.edit_distance)).collect()
        };
        let got = set(&merged);
        let mut want = std::collections::BTreeSet::new();
        for k in &kids {
            want.extend(set(&**k));
        }
        ctx.class_if(want.len() >= 2, "fuzzy_union_of_two_or_more_words");
        {
            let mut lowers: Vec<String> = want.iter().map(|(w, _)| w.to_lowercase()).collect();
            lowers.sort();
            let n = lowers.len();
            lowers.dedup();
            ctx.class_if(lowers.len() < n, "fuzzy_union_with_case_variants");
        }
        if got != want {
            return Err(format!(
                "Merged{:?} fuzzy_match({:?}, {bound}, 100) offers {:?}; its children offer {:?}",
                c.children, c.query, got, want
            ));
        }
        let got_str: std::collections::BTreeSet<(String, u8)> = merged.fuzzy_match_str(&c.query, bound, 100).into_iter().map(|r| (string(r.word), r.edit_distance)).collect();
        if got_str != want {
            return Err(format!(
                "Merged{:?} fuzzy_match_str({:?}, {bound}, 100) offers {:?}; its children offer {:?}",
                c.children, c.query, got_str, want
            ));
        }
    }
    // fuzzy search with a small cap (1-3): whichever child lists it, the closest word is never
    // displaced by a farther one, nothing farther than the cap-th closest word of the union is
    // offered, and at most `cap` words are offered; both entry points
    {
        let bound = (c.query.chars().count() % 3) as u8 + 1;
        let cap = 1 + (c.query.chars().count() + kids.len()) % 3;
        let mut want: std::collections::BTreeSet<(String, u8)> = Default::default();
        for k in &kids {
            want.extend(k.fuzzy_match(&q, bound, 1000).into_iter().map(|r| (string(r.word), r.edit_distance)));
        }
        let mut dists: Vec<u8> = want.iter().map(|(_, d)| *d).collect();
        dists.sort();
        let per_child_hits = kids.iter().filter(|k| !k.fuzzy_match(&q, bound, 1000).is_empty()).count();
        ctx.class_if(per_child_hits >= 2 && dists.len() > cap, "capped_fuzzy_search_with_hits_in_two_children_beyond_the_cap");
        let slice: Vec<u8> = merged.fuzzy_match(&q, bound, cap).into_iter().map(|r| r.edit_distance).collect();
        let strv: Vec<u8> = merged.fuzzy_match_str(&c.query, bound, cap).into_iter().map(|r| r.edit_distance).collect();
        for (name, got) in [("fuzzy_match", &slice), ("fuzzy_match_str", &strv)] {
            let bad = got.len() > cap
                || got.is_empty() != dists.is_empty()
                || got.iter().min() != dists.first()
                || (dists.len() >= cap && got.iter().any(|d| *d > dists[cap - 1]));
            if bad {
                return Err(format!(
                    "Merged{:?} {name}({:?}, {bound}, {cap}) offers distances {:?}; the words of its children within the bound lie at distances {:?}",
                    c.children, c.query, got, dists
                ));
            }
        }
    }
    if merged.word_count() != kids.iter().map(|k| k.word_count()).sum::<usize>() {
        return Err("Merged word_count is not the sum of its parts".into());
    }
    Ok(())
}

const SMALL_ALPHABET: [char; 4] = ['a', 'b', 'B', '\''];

fn small_words(max_len: usize) -> Vec<String> {
    let mut out = vec![];
    let mut frontier = vec![String::new()];
    for _ in 0..max_len {
        let mut next = vec![];
        for f in &frontier {
            for c in SMALL_ALPHABET {
                let mut s = f.clone();
                s.push(c);
                next.push(s);
            }
        }
        out.extend(next.iter().cloned());
        frontier = next;
    }
    out
}

fn small_word() -> BoxedStrategy<String> {
    proptest::collection::vec(
        // İ lower-cases to two characters
        prop_oneof![8 => g::sel(&['a', 'b', 'c', 'B', 'A', '\'', 'é', 'z']), 1 => Just('’'), 1 => Just('ß'), 1 => Just('İ'), 1 => g::sel(&['i', 'I'])],
        1..6,
    )
    .prop_map(|v| v.into_iter().collect())
    .boxed()
}

pub fn run(run: &mut Run) {
    run.rule = "(a) curated FST / mutable / Merged[fst] / Merged[mutable,fst]: queries = dictionary words re-cased 5 ways, one-edit variants, apostrophe variants, unicode runs, empty, long (<=255): membership, exact membership, metadata, canonical spelling and all *_str twins must agree. (b) fuzzy: every dictionary of <=2 (thorough 3) words of length <=2 over {a,b,B,'} (built the way callers build them: MutableDictionary, then FstDictionary::from) x every query of length <=3 x bound 0..3 x cap {1,2,100}, random larger dictionaries, dictionaries of 1-3 words of 40-90 letters queried with 0-2 edits (fuzzy_long_words), and the curated dictionary with brute-force Levenshtein as reference. (c) small_backends_agree: random dictionaries of 1-4 words over {a,b,B,é,t,s,',’,‘} (typographic apostrophes also in the stored words) as MutableDictionary, the FstDictionary built from it, Merged[mutable] and Merged[fst]: all answers agree for every stored word, its apostrophe and case variants and a random query. (d) Merged of 1-3 random children = union, first child wins; its fuzzy search offers exactly the (word, distance) pairs its children offer. Random words are over {a,b,c,A,B,é,z,',’,ß,İ,i,I}. Non-trivial = query is not an entry (case/edit variant) and the dictionary has >=2 entries.".into();

    let n = run.n(50_000, 2_000_000);
    run.prop("curated_backends_agree", n, curated_query, test_curated_query);
    run.require_class("curated_backends_agree", "member_other_capitalisation", (n / 20) as u64);
    run.require_class("curated_backends_agree", "apostrophe_variant", (n / 100) as u64);

    // small scope, exhaustive
    let words = small_words(2);
    let max_dict = run.tier.pick(2usize, 3usize);
    let mut dicts: Vec<Vec<String>> = vec![vec![]];
    let mut frontier: Vec<Vec<String>> = vec![vec![]];
    for _ in 0..max_dict {
        let mut next = vec![];
        for f in &frontier {
            for w in &words {
                let mut d = f.clone();
                d.push(w.clone());
                next.push(d);
            }
        }
        dicts.extend(next.iter().cloned());
        frontier = next;
    }
    let mut queries = vec![String::new()];
    queries.extend(small_words(3));
    let mut cases = vec![];
    for d in &dicts {
        for q in &queries {
            for bound in 0..=3u8 {
                for cap in [1usize, 2, 100] {
                    cases.push(FuzzyCase {
                        words: Some(d.clone()),
                        query: q.clone(),
                        bound,
                        cap,
                    });
                }
            }
        }
    }
    run.enumerate("fuzzy_small_scope", &cases, true, test_fuzzy);
    drop(cases);

    let n = run.n(40_000, 1_000_000);
    run.prop(
        "fuzzy_random_dictionaries",
        n,
        || {
            (
                proptest::collection::vec(small_word(), 0..12),
                prop_oneof![3 => small_word(), 1 => Just(String::new()), 1 => small_word().prop_map(|w| w.to_uppercase())],
                0u8..4,
                prop_oneof![Just(1usize), Just(2), Just(3), Just(100)],
            )
                .prop_map(|(words, query, bound, cap)| FuzzyCase {
                    words: Some(words),
                    query,
                    bound,
                    cap,
                })
                .boxed()
        },
        test_fuzzy,
    );
    run.require_class("fuzzy_random_dictionaries", "has_results", (n / 5) as u64);

    // user, file and identifier dictionaries hold words far longer than any curated entry
    let n = run.n(3_000, 100_000);
    run.prop(
        "fuzzy_long_words",
        n,
        || {
            let long = (40usize..90, any::<u64>()).prop_map(|(len, salt)| {
                (0..len).map(|i| (b'a' + (crate::core::mix(salt, i as u64) % 6) as u8) as char).collect::<String>()
            });
            (proptest::collection::vec(long, 1..4), any::<u16>(), proptest::collection::vec((any::<u16>(), 0u8..3, 0u8..6), 0..3), 0u8..4, prop_oneof![Just(1usize), Just(100)])
                .prop_map(|(words, pick, edits, bound, cap)| {
                    let mut q: Vec<char> = words[crate::core::pick_idx(pick, words.len())].chars().collect();
                    for (pos, kind, letter) in edits {
                        let p = crate::core::pick_idx(pos, q.len().max(1));
                        let l = (b'a' + letter) as char;
                        match kind {
                            0 if q.len() > 1 => {
                                q.remove(p);
                            }
                            1 => q.insert(p, l),
                            _ => q[p] = l,
                        }
                    }
                    FuzzyCase { words: Some(words), query: q.into_iter().collect(), bound, cap }
                })
                .boxed()
        },
        test_fuzzy,
    );
    run.require_class("fuzzy_long_words", "has_results", (n / 5) as u64);

    let n = run.n(2_000, 100_000);
    run.prop(
        "fuzzy_curated",
        n,
        || {
            (
                prop_oneof![
                    4 => g::near_word(),
                    2 => g::plain_word(),
                    1 => g::dict_word(),
                    1 => g::dict_word().prop_map(|w| w.to_uppercase()),
                    1 => g::near_word().prop_map(|w| { let mut c = w.chars(); match c.next() { Some(f) => f.to_uppercase().collect::<String>() + c.as_str(), None => w } }),
                    1 => (g::plain_word(), g::plain_word()).prop_map(|(a, b)| a + &b),
                    1 => Just(String::new()),
                    1 => g::dict_word().prop_map(|w| w.replace('\'', "’")),
                ],
                0u8..4,
                prop_oneof![Just(1usize), Just(3), Just(100), Just(100_000)],
            )
                .prop_map(|(query, bound, cap)| FuzzyCase {
                    words: None,
                    query,
                    bound,
                    cap,
                })
                .boxed()
        },
        test_fuzzy,
    );
    run.require_class("fuzzy_curated", "lower_case_query", (n / 3) as u64);

    let n = run.n(20_000, 500_000);
    run.prop(
        "small_backends_agree",
        n,
        || {
            let w = proptest::collection::vec(
                prop_oneof![6 => g::sel(&['a', 'b', 'B', 'é', 't', 's']), 2 => Just('\''), 2 => Just('’'), 1 => Just('‘')],
                1..6,
            )
            .prop_map(|v| v.into_iter().collect::<String>());
            (proptest::collection::vec(w.clone(), 1..5), w)
                .prop_map(|(words, query)| MergedCase { children: vec![words], query })
                .boxed()
        },
        test_small_backends,
    );
    run.require_class("small_backends_agree", "stored_word_with_typographic_apostrophe", (n / 5) as u64);

    let n = run.n(30_000, 1_000_000);
    run.prop(
        "merged_is_union",
        n,
        || {
            (
                proptest::collection::vec(small_word(), 1..5),
                proptest::collection::vec(
                    proptest::collection::vec((any::<u16>(), 0u8..4), 0..5),
                    1..4,
                ),
                small_word(),
                any::<u16>(),
                0u8..5,
            )
                .prop_map(|(pool, shape, q, sel, mode)| {
                    let recase = |w: &String, m: u8| match m {
                        1 => w.to_uppercase(),
                        2 => w.to_lowercase(),
                        _ => w.clone(),
                    };
                    // children draw (re-cased) words from a shared pool so that overlaps are common
                    let children: Vec<Vec<String>> = shape
                        .iter()
                        .map(|c| {
                            c.iter()
                                .map(|(i, m)| recase(&pool[crate::core::pick_idx(*i, pool.len())], *m))
                                .collect()
                        })
                        .collect();
                    let query = if mode == 0 {
                        q
                    } else {
                        recase(&pool[crate::core::pick_idx(sel, pool.len())], mode - 1)
                    };
                    MergedCase { children, query }
                })
                .boxed()
        },
        test_merged,
    );
    run.require_class("merged_is_union", "in_two_children", (n / 50) as u64);
    run.require_class("merged_is_union", "dialect_restricted_in_one_child_free_in_another", (n / 100) as u64);
    run.require_class("merged_is_union", "other_capitalisation_only", (n / 50) as u64);
    run.require_class("merged_is_union", "fuzzy_union_with_case_variants", (n / 50) as u64);
    run.require_class("merged_is_union", "capped_fuzzy_search_with_hits_in_two_children_beyond_the_cap", (n / 50) as u64);
}

pub fn replay(check: &str, case: Value, _run: &mut Run) -> Result<(), String> {
    let mut ctx = CaseCtx::default();
    match check {
        "curated_backends_agree" => {
            let c: String = serde_json::from_value(case).map_err(|e| e.to_string())?;
            test_curated_query(&c, &mut ctx)
        }
        "small_backends_agree" => {
            let c: MergedCase = serde_json::from_value(case).map_err(|e| e.to_string())?;
            test_small_backends(&c, &mut ctx)
        }
        "merged_is_union" => {
            let c: MergedCase = serde_json::from_value(case).map_err(|e| e.to_string())?;
            test_merged(&c, &mut ctx)
        }
        _ => {
            let c: FuzzyCase = serde_json::from_value(case).map_err(|e| e.to_string())?;
            test_fuzzy(&c, &mut ctx)
        }
    }
}
