//! C01 (c): polynomial-time check on scaling families u^n.

use serde::{Deserialize, Serialize};
use serde_json::Value;

use super::docsweep::{self, DocCase};
use crate::core::{CaseCtx, Run};
use crate::frontends::Frontend;
use crate::generators::ConfigSpec;

#[derive(Debug, Clone, Serialize, Deserialize)]
pub struct ScaleCase {
    pub lang: String,
    pub unit: String,
    pub max_chars: usize,
    /// nesting family: `open^d unit close^d` for growing depth d (instead of `unit^n`)
    #[serde(default)]
    pub nest: Option<(String, String)>,
}

/// Nesting families: (language, open, body, close). Work that doubles with every level of nesting
/// is invisible in the repetition families, whose documents are flat.
pub const NESTS: &[(&str, &str, &str, &str)] = &[
    ("typst", "#(", "1", ")"),
    ("typst", "#[", "a", "]"),
    ("typst", "#{", "1", "}"),
    ("typst", "#f(", "\"a\"", ")"),
    ("typst", "#let x = (", "\"a b\"", ")"),
    ("typst", "*", "a", "*"),
    ("typst", "$(", "x", ")$"),
    ("markdown", "[", "a", "](x)"),
    ("markdown", "*", "a", "*"),
    ("markdown", "<b>", "a", "</b>"),
    ("markdown", "> ", "a", ""),
    ("html", "<div>", "a", "</div>"),
    ("plaintext", "(", "a", ")"),
    ("plaintext", "\"", "a", "\""),
    ("rust", "/* ", "a", " */"),
    ("scala", "/* ", "a", " */"),
    ("javascript", "/** {@link ", "a", "} */"),
    ("literate haskell", "> ", "x", ""),
];

const DEPTHS: &[usize] = &[4, 8, 12, 16, 20, 24, 28, 32, 40, 48, 64, 96, 128, 192, 256];

fn measure_nest(case: &ScaleCase, open: &str, close: &str, ctx: &mut CaseCtx) -> Result<(), String> {
    let fe = Frontend::of(&case.lang);
    let mut times: Vec<(usize, f64)> = vec![];
    for &d in DEPTHS {
        let text = format!("{}{}{}", open.repeat(d), case.unit, close.repeat(d));
        let dc = DocCase { fe: fe.clone(), text, config: ConfigSpec::all_on(), dialect: 0 };
        if let Some(kf) = docsweep::excluded_by_known(&dc) {
            ctx.class(format!("excluded:{kf}"));
            break;
        }
        let t0 = thread_cpu_s();
        let r = docsweep::evaluate(&dc);
        let dt = thread_cpu_s() - t0;
        if let Err(p) = r {
            return Err(format!("panic on {open:?}^{d} {:?} {close:?}^{d} ({}): {} — {}", case.unit, case.lang, p.site(), crate::core::truncate(&p.message, 160)));
        }
        times.push((d, dt));
        // the text grows by at most a factor 2 from one depth to the next; a polynomial of degree
        // 3.5 grows by at most x11.3. Timer noise is irrelevant above a second.
        if let [.., (pd, a), (_, b)] = times[..] {
            if a >= 0.05 && b >= 1.0 && b / a > 11.3 {
                return Err(format!(
                    "work multiplies with the nesting depth: {open:?}^d {:?} {close:?}^d ({}) took {a:.2} s CPU at depth {pd} and {b:.2} s at depth {d}; all measurements {:?}",
                    case.unit, case.lang, times
                ));
            }
        }
        if dt > 120.0 {
            return Err(format!("{open:?}^{d} {:?} {close:?}^{d} ({}) took {dt:.1} s CPU (> 120 s bound)", case.unit, case.lang));
        }
    }
    ctx.class("nesting_family");
    ctx.nontrivial(&(&case.lang, open, &case.unit));
    ctx.sample_note = Some(serde_json::json!(times));
    Ok(())
}

fn thread_cpu_s() -> f64 {
    let mut ts = libc::timespec {
        tv_sec: 0,
        tv_nsec: 0,
    };
    unsafe {
        libc::clock_gettime(libc::CLOCK_THREAD_CPUTIME_ID, &mut ts);
    }
    ts.tv_sec as f64 + ts.tv_nsec as f64 * 1e-9
}

pub const UNITS: &[(&str, &str)] = &[
    ("plaintext", "a"),
    ("plaintext", "word "),
    ("plaintext", "1 "),
    ("plaintext", "This is a test sentence. "),
    ("plaintext", "e.g. "),
    ("plaintext", "\""),
    ("plaintext", "a.b.c."),
    ("plaintext", "the the "),
    ("plaintext", ". "),
    ("plaintext", "\n"),
    ("plaintext", "\n\n a"),
    ("plaintext", "😀"),
    ("plaintext", "a@"),
    ("plaintext", "http://a."),
    ("plaintext", "0x1"),
    ("plaintext", "1e1"),
    ("plaintext", "don't "),
    ("plaintext", "there fore "),
    ("markdown", "[a]("),
    ("markdown", "*a "),
    ("markdown", "> "),
    ("markdown", "- a\n"),
    ("markdown", "  - a\n"),
    ("markdown", "`"),
    ("markdown", "[[a|"),
    ("markdown", "| a "),
    ("markdown", "# a\n\n"),
    ("markdown", "<b>"),
    ("markdown", "&amp;"),
    ("markdown", "word "),
    ("html", "<p>a "),
    ("html", "<b>"),
    ("html", "a <!-- "),
    ("typst", "*a* "),
    ("typst", "#x.y "),
    ("typst", "= a\n"),
    ("typst", "$x$ "),
    ("typst", "\"a\" "),
    ("literate haskell", "> x\n"),
    ("literate haskell", "text\n> x\n\n"),
    ("rust", "// a comment line\n"),
    ("rust", "/* a */ "),
    ("rust", "/// doc `code` here\n"),
    ("javascript", "/** {@link a} */\n"),
    ("javascript", "/** {@link "),
    ("javascript", "// word\n"),
    ("java", "/** {@code a} <p> */\n"),
    ("python", "# a comment\n"),
    ("go", "// a comment\n"),
    ("shellscript", "# word\n"),
    ("lua", "-- word\n"),
    ("c", "/* a */\n"),
    ("git-commit", "word "),
];

/// Run the family; returns (sizes, cpu seconds) or an error message.
pub fn measure(case: &ScaleCase, ctx: &mut CaseCtx) -> Result<(), String> {
    if let Some((open, close)) = &case.nest {
        return measure_nest(case, open, close, ctx);
    }
    let fe = Frontend::of(&case.lang);
    let unit_chars = case.unit.chars().count().max(1);
    let mut size = 1000usize;
    let mut times: Vec<(usize, f64)> = vec![];
    while size <= case.max_chars {
        let reps = size / unit_chars;
        let text = case.unit.repeat(reps.max(1));
        let dc = DocCase {
            fe: fe.clone(),
            text,
            config: ConfigSpec::all_on(),
            dialect: 0,
        };
        if let Some(kf) = docsweep::excluded_by_known(&dc) {
            ctx.class(format!("excluded:{kf}"));
            return Ok(());
        }
        let t0 = thread_cpu_s();
        let r = docsweep::evaluate(&dc);
        let dt = thread_cpu_s() - t0;
        if let Err(p) = r {
            return Err(format!(
                "panic on {:?}^{} ({}): {} — {}",
                case.unit,
                reps,
                case.lang,
                p.site(),
                crate::core::truncate(&p.message, 160)
            ));
        }
        times.push((size, dt));
        if dt > 120.0 {
            return Err(format!(
                "{:?} repeated to {} chars ({}) took {:.1} s CPU (> 120 s bound)",
                case.unit, size, case.lang, dt
            ));
        }
        size *= 2;
    }
    // growth: more than x11.3 (=2^3.5) per doubling on two consecutive doublings once t>=100ms
    let mut bad = 0;
    for w in times.windows(2) {
        let (_, a) = w[0];
        let (_, b) = w[1];
        if a >= 0.1 && b / a > 11.3 {
            bad += 1;
            if bad >= 2 {
                return Err(format!(
                    "super-polynomial growth for unit {:?} ({}): cpu times {:?}",
                    case.unit, case.lang, times
                ));
            }
        } else {
            bad = 0;
        }
    }
    let last = times.last().map(|t| t.1).unwrap_or(0.0);
    ctx.class_if(last > 1.0, "largest_over_1s");
    ctx.class_if(last > 10.0, "largest_over_10s");
    ctx.nontrivial(&(&case.lang, &case.unit));
    ctx.sample_note = Some(serde_json::json!(times));
    if std::env::var("HV_VERBOSE").is_ok() {
        eprintln!("scaling {:?} {:?}: {:?}", case.lang, case.unit, times);
    }
    Ok(())
}

pub fn run_scaling(run: &mut Run) {
    let max_chars = run.tier.pick(8_000, 32_000);
    let cases: Vec<ScaleCase> = UNITS
        .iter()
        .filter(|(l, _)| *l != "git-commit" || crate::frontends::has_git_commit())
        .map(|(l, u)| ScaleCase {
            lang: l.to_string(),
            unit: u.to_string(),
            max_chars,
            nest: None,
        })
        .chain(NESTS.iter().map(|(l, o, u, c)| ScaleCase {
            lang: l.to_string(),
            unit: u.to_string(),
            max_chars,
            nest: Some((o.to_string(), c.to_string())),
        }))
        .collect();
    // one family per thread: CPU time is measured per thread, so parallel load does not matter
    let saved = (run.threads, run.deadline_ms);
    run.threads = cases.len().min(16);
    run.deadline_ms = 1_200_000; // a whole family (up to ~6 sizes) is one case here
    run.enumerate("scaling_families", &cases, false, measure);
    (run.threads, run.deadline_ms) = saved;
}

pub fn replay(case: Value, _run: &mut Run) -> Result<(), String> {
    let c: ScaleCase = serde_json::from_value(case).map_err(|e| e.to_string())?;
    let mut ctx = CaseCtx::default();
    measure(&c, &mut ctx)
}
