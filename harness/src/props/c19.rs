//! C19 — the statistics log reads back exactly what was written, append after append.

use harper_core::linting::{LintGroup, LintKind, Linter};
use harper_core::parsers::{Markdown, MarkdownOptions, Parser, PlainEnglish};
use harper_core::{Dialect, Document, FatStringToken, FstDictionary, TokenKind};
use harper_stats::{Record, RecordKind, Stats};
use proptest::prelude::*;
use serde::{Deserialize, Serialize};
use serde_json::Value;

use crate::core::{CaseCtx, Run};
use crate::generators::{self as g, ConfigSpec};

pub const KF_NONFINITE: &str = "KF-C19-nonfinite-number-context";

#[derive(Debug, Clone, Serialize, Deserialize, PartialEq, Eq, Hash)]
pub enum TokSpec {
    /// arbitrary content as an Unlintable token (code spans / code blocks can hold anything)
    Unlintable(String),
    /// content lexed by harper: every token harper produces for this text (real kinds)
    Lexed(String),
}

#[derive(Debug, Clone, Serialize, Deserialize, PartialEq, Eq, Hash)]
pub enum RecSpec {
    /// all lints of this document become Lint records (real contexts)
    DocLints { text: String, markdown: bool },
    /// synthetic lint record
    Synthetic { kind: u8, context: Vec<TokSpec> },
    Config(ConfigSpec),
    /// a configuration as it arrives from a client: rule -> true / false / null (unset but
    /// mentioned); unknown names included
    ConfigJson(Vec<(String, Option<bool>)>),
}

#[derive(Debug, Clone, Serialize, Deserialize, PartialEq, Eq, Hash)]
pub struct StatsCase {
    /// append sessions, each a list of record specs
    pub sessions: Vec<Vec<RecSpec>>,
    pub when: i64,
    pub uuid_seed: u64,
    /// per session: offset added to `when` (a later session may carry older time stamps, as when
    /// an older export is imported after newer records exist)
    #[serde(default)]
    pub when_offsets: Vec<i64>,
}

const KINDS: [LintKind; 10] = [
    LintKind::Spelling,
    LintKind::Capitalization,
    LintKind::Style,
    LintKind::Formatting,
    LintKind::Repetition,
    LintKind::Enhancement,
    LintKind::Readability,
    LintKind::WordChoice,
    LintKind::Miscellaneous,
    LintKind::Punctuation,
];

fn build_records(specs: &[RecSpec], when: i64, uuid_seed: &mut u64) -> Vec<Record> {
    let dict = FstDictionary::curated();
    let mut out = vec![];
    let mut mk = |kind: RecordKind, out: &mut Vec<Record>| {
        *uuid_seed = crate::core::mix(*uuid_seed, 0x1234);
        let hi = *uuid_seed;
        let lo = crate::core::mix(hi, 7);
        out.push(Record {
            kind,
            when: when.wrapping_add(out.len() as i64),
            uuid: uuid::Uuid::from_u64_pair(hi, lo),
        });
    };
    for spec in specs {
        match spec {
            RecSpec::DocLints { text, markdown } => {
                let parser: Box<dyn Parser> = if *markdown {
                    Box::new(Markdown::new(MarkdownOptions::default()))
                } else {
                    Box::new(PlainEnglish)
                };
                let doc = Document::new(text, &parser, &dict);
                let mut group = LintGroup::new_curated(dict.clone(), Dialect::American);
                group.config = ConfigSpec::all_on().build();
                for lint in group.lint(&doc) {
                    mk(RecordKind::from_lint(&lint, &doc), &mut out);
                }
            }
            RecSpec::Synthetic { kind, context } => {
                let mut toks: Vec<FatStringToken> = vec![];
                for t in context {
                    match t {
                        TokSpec::Unlintable(s) => toks.push(FatStringToken {
                            content: s.clone(),
                            kind: TokenKind::Unlintable,
                        }),
                        TokSpec::Lexed(s) => {
                            let doc = Document::new(s, &PlainEnglish, &dict);
                            toks.extend(doc.fat_string_tokens());
                        }
                    }
                }
                mk(
                    RecordKind::Lint {
                        kind: KINDS[*kind as usize % KINDS.len()],
                        context: toks,
                    },
                    &mut out,
                );
            }
            RecSpec::Config(c) => mk(RecordKind::LintConfigUpdate(c.build()), &mut out),
            RecSpec::ConfigJson(entries) => {
                let map: serde_json::Map<String, Value> =
                    entries.iter().map(|(k, v)| (k.clone(), v.map(Value::Bool).unwrap_or(Value::Null))).collect();
                if let Ok(cfg) = serde_json::from_value(Value::Object(map)) {
                    mk(RecordKind::LintConfigUpdate(cfg), &mut out);
                }
            }
        }
    }
    out
}

fn has_nonfinite(records: &[Record]) -> bool {
    records.iter().any(|r| match &r.kind {
        RecordKind::Lint { context, .. } => context.iter().any(|t| match &t.kind {
            TokenKind::Number(n) => !n.value.0.is_finite(),
            _ => false,
        }),
        _ => false,
    })
}

pub fn test_stats(c: &StatsCase, ctx: &mut CaseCtx) -> Result<(), String> {
    let mut seed = c.uuid_seed;
    let sessions: Vec<Vec<Record>> = c
        .sessions
        .iter()
        .enumerate()
        .map(|(i, s)| build_records(s, c.when.wrapping_add(c.when_offsets.get(i).copied().unwrap_or(0)), &mut seed))
        .collect();
    let all: Vec<Record> = sessions.iter().flatten().cloned().collect();
    let older_later = sessions.windows(2).any(|w| match (w[0].last(), w[1].first()) {
        (Some(a), Some(b)) => b.when < a.when,
        _ => false,
    });
    ctx.class_if(older_later, "later_session_has_older_time_stamps");
    ctx.class_if(sessions.len() >= 2 && sessions.iter().any(|s| s.is_empty()), "empty_session_among_others");
    let weird = all.iter().any(|r| match &r.kind {
        RecordKind::Lint { context, .. } => context.iter().any(|t| {
            t.content
                .chars()
                .any(|ch| ch.is_control() || matches!(ch, '\u{2028}' | '\u{2029}' | '\u{85}'))
        }),
        _ => false,
    });
    ctx.class_if(weird, "linebreak_or_control_in_context");
    ctx.class_if(sessions.len() >= 2, "multi_session");
    ctx.class_if(all.iter().any(|r| matches!(r.kind, RecordKind::LintConfigUpdate(_))), "has_config_record");
    ctx.class_if(
        c.sessions.iter().flatten().any(|r| matches!(r, RecSpec::ConfigJson(e) if e.iter().any(|(_, v)| v.is_none()))),
        "config_record_with_null_entry",
    );
    ctx.class_if(all.is_empty(), "empty");
    ctx.class_if(all.len() >= 5, "records>=5");
    if weird && sessions.len() >= 2 {
        ctx.nontrivial(c);
    }
    if has_nonfinite(&all) {
        // open finding: serde_json writes non-finite floats as null, which cannot be read back
        let mut buf = vec![];
        let wrote = Stats { records: all.clone() }.write(&mut buf).is_ok();
        let ok = wrote && Stats::read(&mut buf.as_slice()).is_ok_and(|s| s.records == all);
        if !ok {
            ctx.known(KF_NONFINITE);
            return Ok(());
        }
    }

    // append sessions to one log
    let mut log: Vec<u8> = vec![];
    for s in &sessions {
        Stats { records: s.clone() }
            .write(&mut log)
            .map_err(|e| format!("write failed: {e}"))?;
    }
    let newlines = log.iter().filter(|b| **b == b'\n').count();
    if newlines != all.len() {
        return Err(format!(
            "{} records written but the log contains {} line feeds",
            all.len(),
            newlines
        ));
    }
    let back = Stats::read(&mut log.as_slice()).map_err(|e| {
        format!(
            "read failed after {} sessions / {} records: {e}",
            sessions.len(),
            all.len()
        )
    })?;
    if back.records != all {
        let i = back
            .records
            .iter()
            .zip(&all)
            .position(|(a, b)| a != b)
            .unwrap_or(back.records.len().min(all.len()));
        return Err(format!(
            "read back {} records, wrote {}; first difference at #{i}: wrote {:?}, read {:?}",
            back.records.len(),
            all.len(),
            all.get(i),
            back.records.get(i)
        ));
    }
    // single-batch write equals the concatenation of the sessions' writes
    let mut one = vec![];
    Stats { records: all.clone() }
        .write(&mut one)
        .map_err(|e| format!("write failed: {e}"))?;
    if one != log {
        return Err("write(a ++ b) != write(a) ++ write(b)".to_string());
    }
    // the harper.js path: each session's file is imported into one linter object, whose export
    // must be the concatenation
    {
        let mut linter = harper_wasm::Linter::new(harper_wasm::Dialect::American);
        let mut so_far: Vec<Record> = vec![];
        // the page may save the file at any moment: before the first import and after each one
        let snapshot = |linter: &harper_wasm::Linter, so_far: &[Record], at: String| -> Result<(), String> {
            let exported = linter.generate_stats_file();
            let got = Stats::read(&mut exported.as_bytes()).map_err(|e| format!("the file from generate_stats_file ({at}) cannot be read: {e}"))?;
            if got.records != so_far {
                return Err(format!(
                    "generate_stats_file {at}: {} records, expected the {} imported so far",
                    got.records.len(), so_far.len()
                ));
            }
            Ok(())
        };
        if sessions.len() % 2 == 0 {
            snapshot(&linter, &so_far, "before any import".to_string())?;
        }
        for (i, srecs) in sessions.iter().enumerate() {
            let mut buf = vec![];
            Stats { records: srecs.clone() }.write(&mut buf).map_err(|e| format!("write failed: {e}"))?;
            let file = String::from_utf8(buf).map_err(|e| format!("the log is not UTF-8: {e}"))?;
            linter
                .import_stats_file(file)
                .map_err(|e| format!("import_stats_file rejects session {i} ({} records) written by Stats::write: {e}", srecs.len()))?;
            so_far.extend(srecs.iter().cloned());
            if (i + srecs.len()) % 2 == 0 {
                snapshot(&linter, &so_far, format!("after importing session {i}"))?;
            }
            // other use of the object in between (the user adds a word) leaves the log alone
            if i % 2 == 0 {
                linter.import_words(vec![format!("zqstatword{i}")]);
            }
        }
        let exported = linter.generate_stats_file();
        let got = Stats::read(&mut exported.as_bytes()).map_err(|e| format!("the file from generate_stats_file cannot be read: {e}"))?;
        if got.records != all {
            let i = got.records.iter().zip(&all).position(|(a, b)| a != b).unwrap_or(got.records.len().min(all.len()));
            return Err(format!(
                "import_stats_file of {} sessions then generate_stats_file: {} records, expected the concatenation ({}); first difference at #{i}: expected when={:?}, got when={:?}",
                sessions.len(), got.records.len(), all.len(), all.get(i).map(|r| r.when), got.records.get(i).map(|r| r.when)
            ));
        }
    }
    // summary
    let summary = back.summarize();
    let n_lint = all
        .iter()
        .filter(|r| matches!(r.kind, RecordKind::Lint { .. }))
        .count() as u32;
    let sum: u32 = summary.lint_counts.values().sum();
    if summary.total_applied != n_lint || sum != n_lint {
        return Err(format!(
            "summary counts {} applied lints (sum of kinds {}), log has {}",
            summary.total_applied, sum, n_lint
        ));
    }
    for k in KINDS {
        let want = all
            .iter()
            .filter(|r| matches!(&r.kind, RecordKind::Lint { kind, .. } if *kind == k))
            .count() as u32;
        if summary.get_count(k) != want {
            return Err(format!(
                "summary count for {k:?} is {}, reference fold gives {want}",
                summary.get_count(k)
            ));
        }
    }
    let last_cfg = all.iter().rev().find_map(|r| match &r.kind {
        RecordKind::LintConfigUpdate(c) => Some(c.clone()),
        _ => None,
    });
    if summary.final_config != last_cfg.unwrap_or_default() {
        return Err("summary.final_config is not the last configuration record".to_string());
    }
    Ok(())
}

fn weird_string() -> BoxedStrategy<String> {
    let piece = prop_oneof![
        3 => g::sel_str(&["\n", "\r", "\r\n", "\u{2028}", "\u{2029}", "\u{85}", "\"", "\\", "\\n", "\u{0}", "\u{1b}", "\u{7f}", "😀", "\u{10ffff}", "\t", "'", "{", "}", ",", ":", "null", "\u{feff}", "\u{fffd}"]),
        2 => g::plain_word(),
        1 => any::<char>().prop_map(|c| c.to_string()),
    ];
    proptest::collection::vec(piece, 0..6)
        .prop_map(|v| v.concat())
        .boxed()
}

fn tok_spec() -> BoxedStrategy<TokSpec> {
    prop_oneof![
        3 => weird_string().prop_map(TokSpec::Unlintable),
        2 => g::word_like().prop_map(TokSpec::Lexed),
        1 => g::sel_str(&["1e999TH", "1e999", "12th", "0x1F", "3.14", "1e308", "1e309", "9007199254740993", "0.1"]).prop_map(TokSpec::Lexed),
        // numbers whose shortest decimal form needs the exact float parser: 17-20 digit integers,
        // long fractions, exponents
        2 => prop_oneof![
            any::<u64>().prop_map(|n| n.to_string()),
            (any::<u64>(), 1u32..18).prop_map(|(n, d)| { let s = n.to_string(); let k = (d as usize).min(s.len() - 1); format!("{}.{}", &s[..s.len() - k], &s[s.len() - k..]) }),
            (any::<u32>(), 0u32..300).prop_map(|(m, e)| format!("{m}e{e}")),
        ].prop_map(TokSpec::Lexed),
        1 => g::sentence().prop_map(TokSpec::Lexed),
    ]
    .boxed()
}

fn rec_spec() -> BoxedStrategy<RecSpec> {
    prop_oneof![
        3 => (0u8..10, proptest::collection::vec(tok_spec(), 0..5)).prop_map(|(kind, context)| RecSpec::Synthetic { kind, context }),
        1 => (g::sentence(), any::<bool>()).prop_map(|(text, markdown)| RecSpec::DocLints { text, markdown }),
        1 => g::config_spec().prop_map(RecSpec::Config),
        1 => proptest::collection::vec((prop_oneof![4 => g::rule_key(), 1 => g::sel_str(&["NoSuchRule", "", "😀"])], prop_oneof![Just(Some(true)), Just(Some(false)), Just(None)]), 0..6).prop_map(RecSpec::ConfigJson),
    ]
    .boxed()
}

fn stats_strategy() -> BoxedStrategy<StatsCase> {
    (
        proptest::collection::vec(proptest::collection::vec(rec_spec(), 0..5), 1..5),
        prop_oneof![Just(0i64), Just(i64::MAX), Just(i64::MIN), any::<i64>(), 1_600_000_000i64..1_900_000_000],
        any::<u64>(),
        prop_oneof![
            2 => Just(vec![]),
            3 => proptest::collection::vec(prop_oneof![Just(0i64), -100_000_000i64..100_000_000, -3i64..3], 1..5),
        ],
    )
        .prop_map(|(sessions, when, uuid_seed, when_offsets)| StatsCase {
            sessions,
            when,
            uuid_seed,
            when_offsets,
        })
        .boxed()
}

// ------------------------------------------------------------------------------------------------
// large logs: multi-byte characters at every alignment relative to I/O buffer boundaries

#[derive(Debug, Clone, Serialize, Deserialize, PartialEq, Eq, Hash)]
pub struct BigCase {
    pub pad: usize,
    pub unit: String,
    pub reps: usize,
    pub records: usize,
    pub sessions: usize,
}

pub fn test_big(c: &BigCase, ctx: &mut CaseCtx) -> Result<(), String> {
    let mut seed = 7u64;
    let mk = |i: usize, seed: &mut u64| {
        *seed = crate::core::mix(*seed, i as u64);
        Record {
            kind: RecordKind::Lint {
                kind: KINDS[i % KINDS.len()],
                context: vec![FatStringToken {
                    content: format!("{}{}", "a".repeat(c.pad + i), c.unit.repeat(c.reps)),
                    kind: TokenKind::Unlintable,
                }],
            },
            when: i as i64,
            uuid: uuid::Uuid::from_u64_pair(*seed, i as u64),
        }
    };
    let sessions: Vec<Vec<Record>> = (0..c.sessions.max(1))
        .map(|s| (0..c.records.max(1)).map(|i| mk(s * 100 + i, &mut seed)).collect())
        .collect();
    let all: Vec<Record> = sessions.iter().flatten().cloned().collect();
    let mut log = vec![];
    for s in &sessions {
        Stats { records: s.clone() }.write(&mut log).map_err(|e| e.to_string())?;
    }
    ctx.class_if(log.len() > 8192, "log_over_8KiB");
    ctx.class_if(log.len() > 65536, "log_over_64KiB");
    if log.len() > 8192 && !c.unit.is_ascii() {
        ctx.nontrivial(c);
    }
    let back = Stats::read(&mut log.as_slice()).map_err(|e| format!("read failed on a {}-byte log: {e}", log.len()))?;
    if back.records != all {
        let i = back.records.iter().zip(&all).position(|(a, b)| a != b).unwrap_or(0);
        return Err(format!(
            "a {}-byte log of {} records (context = {} x {:?} after {} ASCII chars) reads back differently; first difference at record {i}",
            log.len(), all.len(), c.reps, c.unit, c.pad
        ));
    }
    Ok(())
}

// ------------------------------------------------------------------------------------------------
// the language server's statistics file: every recorded lint exactly once, append after append

#[derive(Debug, Clone, Serialize, Deserialize, PartialEq, Eq, Hash)]
pub struct LsStatsCase {
    /// sessions of steps: Some(kind index) = HarperRecordLint, None = didChangeConfiguration
    pub sessions: Vec<Vec<Option<u8>>>,
}

pub fn test_ls_stats(c: &LsStatsCase, ctx: &mut CaseCtx) -> Result<(), String> {
    use crate::lsp::{Sandbox, Server};
    use serde_json::json;
    let r = (|| -> Result<Result<(), String>, crate::lsp::LspError> {
        let sb = Sandbox::new("c19");
        let mut sent: Vec<LintKind> = vec![];
        let mut config_changes = 0;
        for steps in &c.sessions {
            let mut srv = Server::start(&sb, sb.settings(json!({})), None)?;
            for st in steps {
                match st {
                    Some(k) => {
                        let kind = KINDS[*k as usize % KINDS.len()];
                        let rk = RecordKind::Lint {
                            kind,
                            context: vec![FatStringToken { content: format!("wörd{k}\n\"q\""), kind: TokenKind::Word(None) }],
                        };
                        srv.execute("HarperRecordLint", json!([serde_json::to_string(&rk).unwrap()]))?;
                        sent.push(kind);
                    }
                    None => {
                        config_changes += 1;
                        let settings = sb.settings(json!({"diagnosticSeverity": if config_changes % 2 == 0 { "hint" } else { "warning" }}));
                        srv.settings = settings.clone();
                        srv.notify("workspace/didChangeConfiguration", json!({"settings": settings}))?;
                        // make sure the notification was processed before going on
                        srv.execute("HarperRecordLint", json!(["not a record"]))?;
                    }
                }
            }
            srv.shutdown()?;
        }
        let bytes = std::fs::read(sb.stats()).unwrap_or_default();
        let stats = match Stats::read(&mut bytes.as_slice()) {
            Ok(s) => s,
            Err(e) => return Ok(Err(format!("the statistics file written by harper-ls cannot be read back: {e}"))),
        };
        let got: Vec<LintKind> = stats.records.iter().filter_map(|r| match &r.kind { RecordKind::Lint { kind, .. } => Some(*kind), _ => None }).collect();
        ctx.class_if(config_changes > 0 && !sent.is_empty(), "config_change_between_records");
        ctx.class_if(c.sessions.len() >= 2, "two_sessions");
        if sent.len() >= 2 && (config_changes > 0 || c.sessions.len() >= 2) {
            ctx.nontrivial(c);
        }
        if got != sent {
            return Ok(Err(format!(
                "{} lints were recorded over {} sessions ({} configuration changes) but the statistics file holds {} lint records: recorded {:?}, file {:?}",
                sent.len(), c.sessions.len(), config_changes, got.len(), sent, got
            )));
        }
        let summary = stats.summarize();
        if summary.total_applied as usize != sent.len() {
            return Ok(Err(format!("summary counts {} applied lints, {} were recorded", summary.total_applied, sent.len())));
        }
        Ok(Ok(()))
    })();
    match r {
        Ok(r) => r,
        Err(e) => {
            ctx.infra(e);
            Ok(())
        }
    }
}

pub fn run(run: &mut Run) {
    run.rule = "histories of 1-4 append sessions of 0-4 record specs: synthetic lint records whose context tokens are arbitrary-Unicode Unlintable tokens (newline, CR, U+2028/2029, NEL, quotes, backslashes, controls, astral) or the real tokens harper lexes from generated words/sentences/number literals; all lints of a generated document via RecordKind::from_lint; configuration-update records from G-CONFIG and from client-style JSON (true / false / null entries, unknown names); arbitrary timestamps (a later session may carry older ones) and uuids. The same sessions are also imported one by one into a harper.js Linter (import_stats_file) (with import_words calls in between) whose generate_stats_file (also called before the first and between the imports) must read back as the concatenation so far. Oracle: exactly one line feed per record, read(write(a)++write(b)) == a++b, write is a homomorphism over concatenation, summary = reference fold. Non-trivial = a context contains a line-break-like or control char and there are >=2 sessions; distinct by case.".into();
    if !run.strict && run.known.get(KF_NONFINITE).is_some() {
        let c = StatsCase {
            sessions: vec![vec![RecSpec::DocLints {
                text: "It was the 1e999TH time.".into(),
                markdown: false,
            }]],
            when: 0,
            uuid_seed: 1,
            when_offsets: vec![],
        };
        let _ = run.single("known_witnesses", &c, test_stats);
    }
    let n = run.n(20_000, 1_000_000);
    run.prop("append_sessions", n, stats_strategy, test_stats);
    run.require_class("append_sessions", "linebreak_or_control_in_context", (n / 4) as u64);
    run.require_class("append_sessions", "multi_session", (n / 3) as u64);
    run.require_class("append_sessions", "has_config_record", (n / 5) as u64);
    run.require_class("append_sessions", "config_record_with_null_entry", (n / 20) as u64);
    run.require_class("append_sessions", "later_session_has_older_time_stamps", (n / 10) as u64);
    run.require_class("append_sessions", "empty_session_among_others", (n / 20) as u64);

    let n = run.n(400, 20_000);
    run.prop(
        "large_logs",
        n,
        || {
            (0usize..40, g::sel_str(&["𝄞", "é", "中", "😀", "a\u{301}", "\u{2028}", "𝄞é", "x"]), prop_oneof![Just(700usize), 200usize..3000], 1usize..6, 1usize..4)
                .prop_map(|(pad, unit, reps, records, sessions)| BigCase { pad, unit, reps, records, sessions })
                .boxed()
        },
        test_big,
    );
    run.require_class("large_logs", "log_over_8KiB", (n / 2) as u64);

    if crate::lsp::ls_binary().exists() {
        let n = run.n(40, 1_000);
        let saved = (run.threads, run.max_shrink_iters);
        run.threads = run.threads.min(8);
        run.max_shrink_iters = 60;
        run.prop(
            "language_server_statistics_file",
            n,
            || {
                proptest::collection::vec(
                    proptest::collection::vec(prop_oneof![3 => (0u8..10).prop_map(Some), 1 => Just(None)], 0..6),
                    1..4,
                )
                .prop_map(|sessions| LsStatsCase { sessions })
                .boxed()
            },
            test_ls_stats,
        );
        (run.threads, run.max_shrink_iters) = saved;
        run.require_class("language_server_statistics_file", "config_change_between_records", (n / 4) as u64);
        run.require_class("language_server_statistics_file", "two_sessions", (n / 4) as u64);
    } else {
        run.infra_problems.push("harper-ls binary not built: language_server_statistics_file skipped".into());
    }
}

pub fn replay(check: &str, case: Value, run: &mut Run) -> Result<(), String> {
    if check == "large_logs" {
        let c: BigCase = serde_json::from_value(case).map_err(|e| e.to_string())?;
        return test_big(&c, &mut CaseCtx::default());
    }
    if check == "language_server_statistics_file" {
        let c: LsStatsCase = serde_json::from_value(case).map_err(|e| e.to_string())?;
        let mut ctx = CaseCtx::default();
        let r = test_ls_stats(&c, &mut ctx);
        if let Some(i) = ctx.classes.iter().find(|c| c.starts_with("INFRA")) {
            return Err(format!("infrastructure problem during replay: {i}"));
        }
        return r;
    }
    let c: StatsCase = serde_json::from_value(case).map_err(|e| e.to_string())?;
    let mut ctx = CaseCtx::default();
    let r = test_stats(&c, &mut ctx);
    if run.strict && !ctx.known_hits.is_empty() {
        return Err(format!("reproduces known finding {:?}", ctx.known_hits));
    }
    r
}
