//! C01 — checking any text in any supported language never crashes or hangs.

use proptest::prelude::*;
use serde_json::Value;

use super::docsweep::{self, DocCase};
use crate::core::{CaseCtx, Run};
use crate::frontends::Frontend;
use crate::generators::{self as g, ConfigSpec, harvest};

pub use docsweep::TYPST_MAX_DEPTH;

pub fn test_case(case: &DocCase, ctx: &mut CaseCtx) -> Result<(), String> {
    test_case_mode(case, ctx, false)
}

pub fn test_case_mode(case: &DocCase, ctx: &mut CaseCtx, strict: bool) -> Result<(), String> {
    if !strict {
        if let Some(kf) = docsweep::excluded_by_known(case) {
            // open known finding that cannot be tolerated in-process: excluded by an exact
            // predicate, counted
            ctx.class(format!("excluded:{kf}"));
            if kf == docsweep::KF_DART {
                ctx.known(kf);
            }
            return Ok(());
        }
    }
    match docsweep::evaluate(case) {
        Ok(ev) => {
            docsweep::classify(case, Some(&ev), ctx);
            let mid = ends_mid_construct(&case.text);
            ctx.class_if(mid, "ends_mid_construct");
            if !ev.lints.is_empty() || mid || g::has_multibyte(&case.text) {
                ctx.nontrivial(&(&case.fe.lang, &case.text));
            }
            Ok(())
        }
        Err(p) => Err(format!(
            "panic while parsing/linting ({}): {} — {}",
            case.fe.label(),
            p.site(),
            crate::core::truncate(&p.message, 200)
        )),
    }
}

fn ends_mid_construct(t: &str) -> bool {
    let t = t.trim_end_matches(['\n', ' ']);
    match t.chars().last() {
        None => false,
        Some(c) => !matches!(c, '.' | '!' | '?'),
    }
}

/// every prefix of `text` with the three tails
fn prefix_cases(fe: &Frontend, text: &str, config: &ConfigSpec, out: &mut Vec<DocCase>) {
    let idxs: Vec<usize> = text.char_indices().map(|(i, _)| i).chain([text.len()]).collect();
    for &i in &idxs {
        for tail in ["", " ", "\n"] {
            out.push(DocCase {
                fe: fe.clone(),
                text: format!("{}{}", &text[..i], tail),
                config: config.clone(),
                dialect: 0,
            });
        }
    }
}

pub fn run(run: &mut Run) {
    run.rule = "generated: G-FRONTEND (28 language ids x wrappers) x G-TEXT/G-MARKUP/G-PROGRAM/fixture documents (30% truncated at a random char with tail '', ' ' or '\\n') x G-CONFIG x 4 dialects; prefix closure: every char-boundary prefix x 3 tails of harvested rule sentences (<=160 chars) per front-end; scaling families u^n up to 32k chars and nesting families with a CPU-time growth bound; single constructs (fraction digits, integer digits, a word, URL path, e-mail local part, host label, hex digits, spaces, dots, hyphens, inline code, link text, heading marks, a comment word, an attribute) of 70,000 (thorough: also 300,000) characters. Non-trivial = >=1 lint produced, or text ends mid-construct, or contains a multi-byte char; distinct by (front-end, text).".into();
    run.assumptions.push("cases run on threads with a 2 MiB stack (tokio worker default) plus harness headroom; a stack overflow kills the child process and is reported by the supervisor".into());
    run.assumptions.push(format!("Typst inputs with bracket nesting deeper than {TYPST_MAX_DEPTH} are excluded by construction (open known finding KF-C01-typst-deep-nesting)"));

    run.guard = true;
    run.max_shrink_iters = 400;
    run.stack = 2 << 20;
    witnesses(run);
    // 1. generated
    let n = run.n(16_000, 1_000_000);
    run.prop("generated_documents", n, docsweep::doc_case_strategy, test_case);
    for lang in crate::frontends::all_lang_ids() {
        run.require_class("generated_documents", &format!("lang:{lang}"), (n / 400) as u64);
    }
    run.require_class("generated_documents", "has_lints", (n / 5) as u64);
    run.require_class("generated_documents", "astral", (n / 100) as u64);

    // 2. prefix closure of harvested sentences
    let h = harvest();
    let per_lang_sentences = run.n(120, 1500) as usize;
    let mut cases = vec![];
    let all_on = ConfigSpec::all_on();
    let langs: Vec<&str> = crate::frontends::all_lang_ids();
    let seed = run.seed;
    for (li, lang) in langs.iter().enumerate() {
        let fe = Frontend::of(lang);
        let stride_base = crate::core::mix(seed, li as u64) as usize;
        let total = h.sentences.len();
        let take = if matches!(*lang, "plaintext" | "markdown") {
            run.tier.pick(per_lang_sentences * 6, total)
        } else {
            per_lang_sentences
        };
        for k in 0..take.min(total) {
            let s = &h.sentences[(stride_base + k * 7919) % total];
            if s.chars().count() > 160 {
                continue;
            }
            let wrapped = wrap_for(lang, s);
            prefix_cases(&fe, &wrapped, &all_on, &mut cases);
        }
    }
    run.enumerate("prefix_closure", &cases, false, test_case);
    drop(cases);

    // 3. scaling families
    super::c01_scaling::run_scaling(run);

    // 4. single tokens far longer than any buffer or counter the code may have sized for them:
    // one construct of 70,000 and 300,000 characters inside an ordinary sentence
    let mut big = vec![];
    let sizes: &[usize] = if run.tier == crate::core::Tier::Quick { &[70_000] } else { &[70_000, 300_000] };
    for &n in sizes {
        let shapes: Vec<(&str, String)> = vec![
            ("plaintext", format!("It cost 1.{}$ and took 0.{} day.", "0".repeat(n), "5".repeat(n))),
            ("plaintext", format!("It cost ${}.5 in all, the {}th time.", "9".repeat(n), "1".repeat(n))),
            ("plaintext", format!("The word {} is long.", "a".repeat(n))),
            ("plaintext", format!("See https://example.com/{} now.", "p".repeat(n))),
            ("plaintext", format!("Mail {}@example.com today.", "m".repeat(n))),
            ("plaintext", format!("Visit {}.example.com soon.", "h".repeat(n))),
            ("plaintext", format!("The value 0x{} is hex.", "F".repeat(n))),
            ("plaintext", format!("A gap{}here.", " ".repeat(n))),
            ("plaintext", format!("Wait{} what.", ".".repeat(n))),
            ("plaintext", format!("Well{}then.", "-".repeat(n))),
            ("markdown", format!("Some `{}` code and a [{}](x) link.", "c".repeat(n), "t".repeat(n))),
            ("markdown", format!("{} Heading", "#".repeat(n))),
            ("rust", format!("// {}\nfn main() {{}}\n", "w".repeat(n))),
            ("html", format!("<p title=\"{}\">text {}</p>", "q".repeat(n), "z".repeat(n))),
        ];
        for (lang, text) in shapes {
            big.push(DocCase { fe: Frontend::of(lang), text, config: ConfigSpec::curated(), dialect: 0 });
        }
    }
    let saved = run.deadline_ms;
    run.deadline_ms = 600_000;
    run.enumerate("very_long_tokens", &big, false, test_case);
    run.deadline_ms = saved;
}

/// Replay the witnesses of the open known findings (prints KNOWN-FINDING when they still fail
/// in exactly the listed way).
fn witnesses(run: &mut Run) {
    if run.strict {
        return;
    }
    if run.known.get(docsweep::KF_DART).is_some() {
        let text = run
            .known
            .get(docsweep::KF_DART)
            .and_then(|k| k.witness.as_ref().and_then(|w| w["text"].as_str().map(String::from)))
            .unwrap_or_else(|| "a = [b.c".to_string());
        if docsweep::dart_treesitter_stalls(&text) {
            run.note_known(docsweep::KF_DART);
        }
    }
    if run.known.get(docsweep::KF_TYPST).is_some() {
        let case = DocCase {
            fe: Frontend::of("typst"),
            text: "#(".repeat(5000),
            config: ConfigSpec::curated(),
            dialect: 0,
        };
        let v = serde_json::to_value(&case).unwrap();
        if let crate::core::Confirm::Signal(_) = crate::core::confirm_case(
            "C01",
            "generated_documents",
            &v,
            std::time::Duration::from_secs(120),
        ) {
            run.note_known(docsweep::KF_TYPST);
        }
    }
}

/// put a sentence where the front-end will see it as prose
pub fn wrap_for(lang: &str, s: &str) -> String {
    match lang {
        "plaintext" | "markdown" | "git-commit" | "typst" | "literate haskell" => s.to_string(),
        "html" => format!("<p>{s}"),
        other => match g::program::lang_spec(other) {
            Some(spec) => {
                let lead = spec.line.first().copied().unwrap_or("//");
                format!("{}{} {}", spec.prologue, lead, s.replace('\n', " "))
            }
            None => s.to_string(),
        },
    }
}

pub fn replay(check: &str, case: Value, run: &mut Run) -> Result<(), String> {
    if check.starts_with("scaling") {
        return super::c01_scaling::replay(case, run);
    }
    let c: DocCase = serde_json::from_value(case).map_err(|e| e.to_string())?;
    let mut ctx = CaseCtx::default();
    // replay runs on a 2 MiB thread like the search does
    let strict = run.strict;
    std::thread::scope(|sc| {
        std::thread::Builder::new()
            .stack_size((2 << 20) + (256 << 10))
            .spawn_scoped(sc, || test_case_mode(&c, &mut ctx, strict))
            .expect("spawn")
            .join()
            .unwrap_or_else(|_| Err("panic escaped".to_string()))
    })
}

pub fn any_doc_case() -> BoxedStrategy<DocCase> {
    docsweep::doc_case_strategy()
}
