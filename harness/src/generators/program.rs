//! G-PROGRAM — per-language tables (comment styles, valid code-line templates) and source-file
//! generators. `source_file()` is the loose generator used by the crash/token sweeps;
//! the ground-truth generator for C04 lives in `props::c04`.

use proptest::prelude::*;

use super::{sel_str, text};

#[derive(Debug, Clone, Copy)]
pub struct LangSpec {
    pub id: &'static str,
    /// line-comment leaders
    pub line: &'static [&'static str],
    /// block comments (open, close)
    pub block: &'static [(&'static str, &'static str)],
    /// text that must open the file (php)
    pub prologue: &'static str,
    /// syntactically valid code lines; `{id}` = identifier hole, `{s}` = string content hole
    pub code: &'static [&'static str],
}

pub const LANGS: &[LangSpec] = &[
    LangSpec { id: "rust", line: &["//", "///", "//!"], block: &[("/*", "*/"), ("/**", "*/")], prologue: "",
        code: &["let {id} = \"{s}\";", "fn {id}() {}", "const {id}: &str = \"{s}\";", "struct {id};"] },
    LangSpec { id: "typescript", line: &["//"], block: &[("/*", "*/"), ("/**", "*/")], prologue: "",
        code: &["const {id}: string = \"{s}\";", "function {id}() {}", "let {id} = '{s}';"] },
    LangSpec { id: "typescriptreact", line: &["//"], block: &[("/*", "*/"), ("/**", "*/")], prologue: "",
        code: &["const {id} = \"{s}\";", "function {id}() {}", "const {id} = <a href=\"x\">see http://example.com/{id} for more</a>;", "const {id} = <p>a b // {id} remark</p>;"] },
    LangSpec { id: "javascript", line: &["//"], block: &[("/*", "*/"), ("/**", "*/")], prologue: "",
        code: &["const {id} = \"{s}\";", "function {id}() {}", "var {id} = '{s}';"] },
    LangSpec { id: "javascriptreact", line: &["//"], block: &[("/*", "*/"), ("/**", "*/")], prologue: "",
        code: &["const {id} = \"{s}\";", "function {id}() {}", "const {id} = <a href=\"x\">see http://example.com/{id} for more</a>;", "const {id} = <p>a b // {id} remark</p>;"] },
    LangSpec { id: "python", line: &["#"], block: &[], prologue: "",
        code: &["{id} = \"{s}\"", "def {id}(): pass", "{id} = '{s}'", "import {id}"] },
    LangSpec { id: "nix", line: &["#"], block: &[("/*", "*/")], prologue: "",
        code: &["let {id} = \"{s}\"; in {id}"] },
    LangSpec { id: "go", line: &["//"], block: &[("/*", "*/")], prologue: "package main\n",
        code: &["var {id} = \"{s}\"", "func {id}() {}", "const {id} = `{s}`"] },
    LangSpec { id: "c", line: &["//"], block: &[("/*", "*/")], prologue: "",
        code: &["const char *{id} = \"{s}\";", "int {id}(void) { return 0; }", "int {id};"] },
    LangSpec { id: "cpp", line: &["//"], block: &[("/*", "*/")], prologue: "",
        code: &["const char *{id} = \"{s}\";", "int {id}() { return 0; }", "class {id} {};"] },
    LangSpec { id: "cmake", line: &["#"], block: &[], prologue: "",
        code: &["set({id} \"{s}\")", "project({id})"] },
    LangSpec { id: "ruby", line: &["#"], block: &[], prologue: "",
        code: &["{id} = \"{s}\"", "def {id}; end", "{id} = '{s}'"] },
    LangSpec { id: "swift", line: &["//", "///"], block: &[("/*", "*/")], prologue: "",
        code: &["let {id} = \"{s}\"", "func {id}() {}"] },
    LangSpec { id: "csharp", line: &["//", "///"], block: &[("/*", "*/")], prologue: "",
        code: &["class {id} { string x = \"{s}\"; }", "class {id} {}"] },
    LangSpec { id: "toml", line: &["#"], block: &[], prologue: "",
        code: &["{id} = \"{s}\"", "[{id}]", "{id} = '{s}'"] },
    LangSpec { id: "lua", line: &["--"], block: &[("--[[", "]]")], prologue: "",
        code: &["local {id} = \"{s}\"", "function {id}() end", "local {id} = '{s}'"] },
    LangSpec { id: "shellscript", line: &["#"], block: &[], prologue: "",
        code: &["{id}=\"{s}\"", "echo \"{s}\"", "{id}() { :; }", "echo '{s}'"] },
    LangSpec { id: "java", line: &["//"], block: &[("/*", "*/"), ("/**", "*/")], prologue: "",
        code: &["class {id} { String x = \"{s}\"; }", "class {id} {}"] },
    LangSpec { id: "haskell", line: &["--"], block: &[("{-", "-}")], prologue: "",
        code: &["{id} = \"{s}\"", "{id} = 1"] },
    LangSpec { id: "php", line: &["//", "#"], block: &[("/*", "*/"), ("/**", "*/")], prologue: "<?php\n",
        code: &["${id} = \"{s}\";", "function {id}() {}", "${id} = '{s}';"] },
    LangSpec { id: "dart", line: &["//", "///"], block: &[("/*", "*/")], prologue: "",
        code: &["var {id} = \"{s}\";", "void {id}() {}", "var {id} = '{s}';"] },
    LangSpec { id: "scala", line: &["//"], block: &[("/*", "*/"), ("/**", "*/")], prologue: "",
        code: &["val {id} = \"{s}\"", "def {id}() = 1", "object {id}"] },
];

pub fn lang_spec(id: &str) -> Option<&'static LangSpec> {
    LANGS.iter().find(|l| l.id == id)
}

const IDENTS: &[&str] = &["foo", "bar_baz", "getUserName", "x1", "zqIdent", "HTTPServer", "my_var2", "été"];
const STRS: &[&str] = &["hello wrold", "", "a \\\" b", "😀 ünï", "https://example.com", "%d items", "teh", "zq zq", "señor", "⌘", "中文 teh"];

/// One segment of a loosely generated source file.
fn segment(spec: &'static LangSpec) -> BoxedStrategy<String> {
    let nline = spec.line.len();
    let nblock = spec.block.len();
    let ncode = spec.code.len();
    let mut opts: Vec<(u32, BoxedStrategy<String>)> = vec![];
    opts.push((
        3,
        (0..ncode, sel_str(IDENTS), sel_str(STRS), sel_str(&["", "  ", "\t", "    "]))
            .prop_map(move |(i, id, s, ind)| {
                format!("{ind}{}", spec.code[i].replace("{id}", &id).replace("{s}", &s))
            })
            .boxed(),
    ));
    if nline > 0 {
        opts.push((
            5,
            (0..nline, text(), sel_str(&["", " ", "  ", "\t"]), sel_str(&["", " ", "  "]))
                .prop_map(move |(i, t, ind, gap)| {
                    t.lines()
                        .map(|l| format!("{ind}{}{gap}{l}", spec.line[i]))
                        .collect::<Vec<_>>()
                        .join("\n")
                })
                .boxed(),
        ));
        // trailing comment after code
        opts.push((
            1,
            (0..ncode, 0..nline, super::sentence())
                .prop_map(move |(c, i, t)| {
                    format!(
                        "{} {} {}",
                        spec.code[c].replace("{id}", "foo").replace("{s}", "x"),
                        spec.line[i],
                        t.replace('\n', " ")
                    )
                })
                .boxed(),
        ));
    }
    if nblock > 0 {
        opts.push((
            4,
            (0..nblock, text(), any::<bool>(), any::<bool>())
                .prop_map(move |(i, t, stars, close)| {
                    let (o, c) = spec.block[i];
                    let body = if stars {
                        t.lines().map(|l| format!(" * {l}")).collect::<Vec<_>>().join("\n")
                    } else {
                        t
                    };
                    if close {
                        format!("{o}\n{body}\n {c}")
                    } else {
                        format!("{o} {body}") // unterminated block comment
                    }
                })
                .boxed(),
        ));
        // doc comment with tags (jsdoc / javadoc)
        opts.push((
            2,
            (super::sentence(), sel_str(&["@param", "@return", "{@link Foo}", "{@link Foo", "{@link", "@see", "{@code x}", "{@", "<p>", "@"]), super::sentence())
                .prop_map(move |(a, tag, b)| format!("/**\n * {a} {tag} {b}\n * {tag}\n */"))
                .boxed(),
        ));
    }
    if nline > 0 {
        // a comment with a fenced code example: closed, still open (the state while typing it),
        // followed by more prose or not
        opts.push((
            2,
            (0..nline, super::sentence(), sel_str(&["```", "```rust", "~~~", "``` "]), 0u8..4, super::sentence())
                .prop_map(move |(i, a, fence, shape, b)| {
                    let lc = spec.line[i];
                    let mut lines = vec![format!("{lc} {}", a.replace('\n', " ")), format!("{lc} {fence}"), format!("{lc} let x = 1;")];
                    if shape >= 1 {
                        lines.push(format!("{lc} ```"));
                    }
                    if shape >= 2 {
                        lines.push(format!("{lc} {}", b.replace('\n', " ")));
                    }
                    if shape == 3 {
                        lines.push(format!("{lc} {fence}"));
                        lines.push(format!("{lc} y"));
                    }
                    lines.join("\n")
                })
                .boxed(),
        ));
    }
    opts.push((1, Just(String::new()).boxed()));
    // language-specific directives and markers inside comments
    let specials: &'static [&'static str] = match spec.id {
        "go" => &["//go:build linux", "//go:generate stringer -type=Pill", "//go:build linux\n//", "//go:embed teh.txt\n// Teh real comment.", "//go:", "//go:build ignore\n//go:generate ls\n// Package main does teh things.", "//go:noescape\n//go:noinline\n// fastpath is teh hot loop.", "//go:build linux\n//go:debug x=123\n\n// Teh package.", "// +build ignore", "//nolint:errcheck // teh reason"],
        "rust" => &["//! # Titel", "/// ```\n/// let teh = 1;\n/// ```", "// harper:ignore teh", "//", "///", "/**/", "/***/", "// spellchecker:ignore wrold"],
        "python" => &["#!/usr/bin/env python", "# -*- coding: utf-8 -*-", "# type: ignore", "# noqa: E501 teh", "#", "\"\"\"Teh docstring.\"\"\""],
        "shellscript" => &["#!/bin/bash", "#!/usr/bin/env teh", "#", "# shellcheck disable=SC2086", ": <<'EOF'\nteh heredoc\nEOF"],
        "lua" => &["--[[ ", "--[[", "--[==[ teh ]==]", "---@param teh string", "--"],
        "ruby" => &["=begin\nTeh block comment.\n=end", "# frozen_string_literal: true", "#!/usr/bin/env ruby", "# :nodoc:"],
        "haskell" => &["{-# LANGUAGE OverloadedStrings #-}", "-- | Teh haddock", "-- ^ teh", "{- | teh -}", "{-", "--"],
        "c" | "cpp" => &["/* [ */", "#include <teh.h>", "#define TEH 1 // teh", "/**< teh */", "//!< teh", "/*", "//\\\nteh continued"],
        "scala" => &["/* off: val a = 1 /* x */ val b = 2 /* y */ */", "/** outer /* inner teh */ more /* second */ end */", "/** {@link Teh} */", "// teh", "/**", "/* /* /* deep */ */ */"],
        "java" => &["/** {@link Teh} */", "/** @param teh the teh */", "/** {@code teh */", "/** <p>Teh.</p> */", "/**", "/** {@link", "/** {@ */"],
        "javascript" | "typescript" | "javascriptreact" | "typescriptreact" => &["/** {@link Teh} */", "/** @param {string} teh - The teh. */", "// @ts-ignore teh", "/** {@link", "/* eslint-disable */", "// - [ ", "/** @returns {Promise<Teh>} */"],
        "php" => &["<?php // teh", "<?php /** @var Teh $teh */", "?> teh html <?php", "# teh", "<?php"],
        "toml" => &["# teh", "[teh] # wrold", "#"],
        "cmake" => &["#[[ teh bracket comment ]]", "#[=[ teh ]=]", "# teh"],
        "csharp" => &["/// <summary>Teh summary.</summary>", "#region teh", "// teh", "/// <param name=\"teh\">wrold</param>"],
        "rust" | "haskell_nested" => &["/* outer /* inner */ /* second */ teh */"],
        "swift" | "dart" => &["/* outer /* inner teh */ mid /* second */ end */","/// - Parameter teh: wrold", "// MARK: - teh", "/** teh */", "///"],
        "nix" => &["# teh", "/* teh */", "/**\n  teh\n*/"],
        _ => &["# teh", "// teh"],
    };
    opts.push((2, sel_str(specials).boxed()));
    proptest::strategy::Union::new_weighted(opts).boxed()
}

/// A loosely structured source file in language `id` (not necessarily valid).
pub fn source_file(id: &str) -> BoxedStrategy<String> {
    let Some(spec) = lang_spec(id) else {
        return text();
    };
    (
        any::<bool>(),
        proptest::collection::vec(segment(spec), 1..6),
        sel_str(&["\n", "\n", "\n", "\r\n", "\n\n"]),
        sel_str(&["", "\n"]),
    )
        .prop_map(move |(prologue, segs, nl, tail)| {
            let mut s = String::new();
            if prologue || !spec.prologue.is_empty() {
                s.push_str(spec.prologue);
            }
            s.push_str(&segs.join(&nl));
            s.push_str(&tail);
            s
        })
        .boxed()
}
