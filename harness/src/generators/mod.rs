//! Shared generators: harvested material (3.1), G-TEXT (3.2), G-CONFIG (3.5).

pub mod markup;
pub mod program;

use std::collections::BTreeSet;
use std::path::Path;
use std::sync::OnceLock;

use harper_core::linting::{LintGroup, LintGroupConfig};
use harper_core::{Dialect, Dictionary, FstDictionary};
use proptest::prelude::*;
use serde::{Deserialize, Serialize};

use crate::core::{pick_idx, repo_dir};

// ------------------------------------------------------------------------------------------------
// harvest

pub struct Harvest {
    /// multi-word string literals of harper-core/src (rule trigger sentences)
    pub sentences: Vec<String>,
    /// single-token string literals (trigger words)
    pub words: Vec<String>,
    /// fixture files: (extension-or-kind, content)
    pub fixtures: Vec<(String, String)>,
    /// sorted curated dictionary word list
    pub dict_words: Vec<String>,
    /// lower-case ASCII-only dictionary words of length 3..=9 (prose vocabulary)
    pub plain_words: Vec<String>,
    /// distinct rule keys of the curated lint group
    pub rule_keys: Vec<String>,
}

static HARVEST: OnceLock<Harvest> = OnceLock::new();

pub fn harvest() -> &'static Harvest {
    HARVEST.get_or_init(build_harvest)
}

fn walk(dir: &Path, out: &mut Vec<std::path::PathBuf>) {
    let Ok(rd) = std::fs::read_dir(dir) else {
        return;
    };
    let mut entries: Vec<_> = rd.flatten().map(|e| e.path()).collect();
    entries.sort();
    for p in entries {
        if p.is_dir() {
            walk(&p, out);
        } else {
            out.push(p);
        }
    }
}

/// Extract the string literals of a Rust source file (handles escapes, raw strings, comments,
/// char literals and lifetimes well enough for harvesting).
pub fn rust_string_literals(src: &str) -> Vec<String> {
    let c: Vec<char> = src.chars().collect();
    let n = c.len();
    let mut i = 0;
    let mut out = vec![];
    while i < n {
        match c[i] {
            '/' if i + 1 < n && c[i + 1] == '/' => {
                while i < n && c[i] != '\n' {
                    i += 1;
                }
            }
            '/' if i + 1 < n && c[i + 1] == '*' => {
                i += 2;
                while i + 1 < n && !(c[i] == '*' && c[i + 1] == '/') {
                    i += 1;
                }
                i += 2;
            }
            '\'' => {
                // char literal or lifetime
                if i + 2 < n && c[i + 1] == '\\' {
                    i += 2;
                    while i < n && c[i] != '\'' {
                        i += 1;
                    }
                    i += 1;
                } else if i + 2 < n && c[i + 2] == '\'' {
                    i += 3;
                } else {
                    i += 1;
                }
            }
            'r' if i + 1 < n
                && (c[i + 1] == '"' || c[i + 1] == '#')
                && (i == 0 || !(c[i - 1].is_alphanumeric() || c[i - 1] == '_')) =>
            {
                let mut j = i + 1;
                let mut hashes = 0;
                while j < n && c[j] == '#' {
                    hashes += 1;
                    j += 1;
                }
                if j < n && c[j] == '"' {
                    j += 1;
                    let start = j;
                    'outer: while j < n {
                        if c[j] == '"' {
                            let mut k = 0;
                            while k < hashes && j + 1 + k < n && c[j + 1 + k] == '#' {
                                k += 1;
                            }
                            if k == hashes {
                                out.push(c[start..j].iter().collect());
                                j += 1 + hashes;
                                break 'outer;
                            }
                        }
                        j += 1;
                    }
                    i = j;
                } else {
                    i += 1;
                }
            }
            '"' => {
                let mut s = String::new();
                i += 1;
                while i < n && c[i] != '"' {
                    if c[i] == '\\' && i + 1 < n {
                        i += 1;
                        match c[i] {
                            'n' => s.push('\n'),
                            't' => s.push('\t'),
                            'r' => s.push('\r'),
                            '0' => s.push('\0'),
                            '\\' => s.push('\\'),
                            '"' => s.push('"'),
                            '\'' => s.push('\''),
                            'u' => {
                                // \u{XXXX}
                                let mut j = i + 1;
                                if j < n && c[j] == '{' {
                                    j += 1;
                                    let st = j;
                                    while j < n && c[j] != '}' {
                                        j += 1;
                                    }
                                    let hex: String = c[st..j.min(n)].iter().collect();
                                    if let Some(ch) =
                                        u32::from_str_radix(&hex, 16).ok().and_then(char::from_u32)
                                    {
                                        s.push(ch);
                                    }
                                    i = j;
                                }
                            }
                            '\n' => {
                                // line continuation: skip leading whitespace of next line
                                while i + 1 < n && c[i + 1].is_whitespace() {
                                    i += 1;
                                }
                            }
                            other => s.push(other),
                        }
                    } else {
                        s.push(c[i]);
                    }
                    i += 1;
                }
                i += 1;
                out.push(s);
            }
            _ => i += 1,
        }
    }
    out
}

fn build_harvest() -> Harvest {
    let repo = repo_dir();
    let mut files = vec![];
    walk(&repo.join("harper-core/src"), &mut files);
    let mut sentences = BTreeSet::new();
    let mut words = BTreeSet::new();
    for f in files.iter().filter(|f| f.extension().is_some_and(|e| e == "rs")) {
        let Ok(src) = std::fs::read_to_string(f) else {
            continue;
        };
        for lit in rust_string_literals(&src) {
            let n = lit.chars().count();
            if n == 0 || n > 600 {
                continue;
            }
            if lit.split_whitespace().count() >= 2 {
                sentences.insert(lit);
            } else if n <= 40 {
                words.insert(lit);
            }
        }
    }
    let mut fixtures = vec![];
    for dir in [
        "harper-core/tests/test_sources",
        "harper-comments/tests/language_support_sources",
        "harper-html/tests/run_tests",
        "harper-typst/tests/run_tests",
        "harper-literate-haskell/tests/run_tests",
        "harper-html/tests",
        "harper-typst/tests",
        "harper-literate-haskell/tests",
    ] {
        let mut fs = vec![];
        walk(&repo.join(dir), &mut fs);
        for f in fs {
            let ext = f
                .extension()
                .map(|e| e.to_string_lossy().to_string())
                .unwrap_or_default();
            if ext == "rs" {
                continue;
            }
            if let Ok(s) = std::fs::read_to_string(&f) {
                if s.len() < 40_000 && !fixtures.iter().any(|(_, c)| c == &s) {
                    fixtures.push((ext, s));
                }
            }
        }
    }
    let dict = FstDictionary::curated();
    let mut dict_words: Vec<String> = dict.words_iter().map(|w| w.iter().collect()).collect();
    dict_words.sort();
    dict_words.dedup();
    let plain_words: Vec<String> = dict_words
        .iter()
        .filter(|w| {
            let n = w.len();
            (3..=9).contains(&n) && w.bytes().all(|b| b.is_ascii_lowercase())
        })
        .cloned()
        .collect();
    let group = LintGroup::new_curated(dict.clone(), Dialect::American);
    let rule_keys: Vec<String> = group
        .iter_keys()
        .map(|s| s.to_string())
        .collect::<BTreeSet<_>>()
        .into_iter()
        .collect();
    Harvest {
        sentences: sentences.into_iter().collect(),
        words: words.into_iter().collect(),
        fixtures,
        dict_words,
        plain_words,
        rule_keys,
    }
}

// ------------------------------------------------------------------------------------------------
// G-TEXT

const SPECIAL_WORDS: &[&str] = &[
    "e.g.", "i.e.", "N.S.A.", "etc.", "et al.", "vs.", "U.S.", "a.", "I.", "don't", "don’t",
    "it's", "I'm", "we’ve", "o'clock", "'tis", "rock'n'roll", "well-known", "snake_case",
    "camelCase", "https://example.com/a?b=c#d", "http://a.b", "www.example.org",
    "user@example.com", "a@b.c", "example.com", "0x1F", "0xdeadBEEF", "1990s", "'90s", "80s",
    "$5", "5$", "€10", "£3.50", "1st", "2nd", "3rd", "4th", "11st", "22th", "103rd", "1ST", "2Nd",
    "1e10", "1e999", "1.5", ".5", "5.", "1,000", "-1", "3.14th", "1street", "2ndly", "...", "..",
    "....", "…", "--", "---", "—", "–", "@user", "#tag", "[a-z]", "[0-9]+", "C++", "C#", ".NET",
    "AT&T", "R&D", "the", "a", "an", "then", "than", "how", "why", "of", "to", "I", "i",
    "better", "could", "should", "would", "must", "their", "there", "your", "you're", "its",
    "let's", "lets", "who's", "whose",
    // identifiers the G-PROGRAM code templates declare (collapsed by the server's wrapper when
    // a comment mentions them)
    "0xDEAD_BEEF", "0xFFFF_FFFF_0000_0000", "0x1_0", "0xFF_", "0x_FF", "1_000", "1_000th", "0b1010", "0o17", "1e1_0",
    "1ßt", "1ſt", "21ﬆ", "21ﬆt", "5ẗh", "6tẖ", "2ŉd", "3ʀd", "1ST", "1ſT", "22ND",
    "bar_baz", "my_var2", "getUserName", "HTTPServer", "bar_baz's", "bar_baz_", "_bar_baz", "bar-baz", "x1",
    // dictionary compounds whose parts are separated by markup that the Markdown front-end hides
    "built-![alt text](u.png)in", "add-![x](y)on", "built-<b></b>in", "bar_![a b](c)baz", "well-![a](b)known", "my_![alt text](u.png)var2",
];

const UNICODE_PIECES: &[&str] = &[
    "😀", "𝒜", "𝔘𝔫𝔦", "é", "e\u{301}", "ñ", "ü", "ß", "ﬁ", "ﬂ", "İ", "ı", "Ǆ", "中文", "日本語",
    "한국어", "עברית", "العربية", "Ωμέγα", "Привет", "\u{200d}", "\u{200b}", "\u{a0}", "\u{2028}",
    "\u{2029}", "\u{feff}", "“", "”", "‘", "’", "＇", "«", "»", "„", "、", "，", "。", "！", "？",
    "\u{0}", "\u{7f}", "\u{85}", "\u{1f}", "👨\u{200d}👩\u{200d}👧", "🇺🇸", "a\u{300}\u{301}\u{302}",
    "\u{e000}", "\u{10ffff}", "\u{fffd}", "½", "²", "①", "٣", "௧", "〇", "一", "Ⅷ",
];

const PUNCT: &[&str] = &[
    ".", ",", "!", "?", ";", ":", "\"", "'", "(", ")", "[", "]", "{", "}", "-", "/", "\\", "*",
    "&", "%", "$", "#", "@", "^", "~", "`", "|", "<", ">", "=", "+", "_",
];

const SEPS: &[&str] = &[" ", " ", " ", "  ", "\n", "\t", "", " \n", "\r\n"];
const PARBREAKS: &[&str] = &["\n\n", "\n\n", "\n \n", "\r\n\r\n", "\n\n\n"];
const TERMINATORS: &[&str] = &[".", ".", ".", "!", "?", "", "...", ":", ";"];

pub fn sel<T: Clone + std::fmt::Debug + 'static>(items: &'static [T]) -> BoxedStrategy<T> {
    let n = items.len();
    (0..n).prop_map(move |i| items[i].clone()).boxed()
}

pub fn sel_str(items: &'static [&'static str]) -> BoxedStrategy<String> {
    let n = items.len();
    (0..n).prop_map(move |i| items[i].to_string()).boxed()
}

pub fn from_vec(items: &'static [String]) -> BoxedStrategy<String> {
    let n = items.len().max(1);
    any::<u16>()
        .prop_map(move |s| {
            if items.is_empty() {
                String::new()
            } else {
                items[pick_idx(s, n)].clone()
            }
        })
        .boxed()
}

pub fn harvested_sentence() -> BoxedStrategy<String> {
    from_vec(&harvest().sentences)
}

pub fn dict_word() -> BoxedStrategy<String> {
    from_vec(&harvest().dict_words)
}

pub fn plain_word() -> BoxedStrategy<String> {
    from_vec(&harvest().plain_words)
}

/// a non-word one edit away from a dictionary word (may accidentally be a word)
pub fn near_word() -> BoxedStrategy<String> {
    (plain_word(), any::<u16>(), 0u8..3, 0u8..26)
        .prop_map(|(w, pos, op, letter)| {
            let mut c: Vec<char> = w.chars().collect();
            let p = pick_idx(pos, c.len().max(1));
            let l = (b'a' + letter) as char;
            match op {
                0 if c.len() > 1 => {
                    c.remove(p);
                }
                1 => c.insert(p, l),
                _ => {
                    if !c.is_empty() {
                        c[p] = l
                    }
                }
            }
            c.into_iter().collect()
        })
        .boxed()
}

pub fn number_word() -> BoxedStrategy<String> {
    (
        prop_oneof![0u64..30, 0u64..2000, any::<u32>().prop_map(|x| x as u64)],
        sel_str(&["", "", "st", "nd", "rd", "th", "ST", "Th", "s", "'s", "%", "x", "kg", "street", "ßt", "ſt", "ﬆ", "ẗh", "tẖ", "_0", "_000", "sT", "nD"]),
    )
        .prop_map(|(n, s)| format!("{n}{s}"))
        .boxed()
}

pub fn unicode_run() -> BoxedStrategy<String> {
    prop_oneof![
        4 => proptest::collection::vec(sel_str(UNICODE_PIECES), 1..5).prop_map(|v| v.concat()),
        1 => (sel_str(UNICODE_PIECES), plain_word()).prop_map(|(u, w)| format!("{w}{u}")),
        1 => (sel_str(UNICODE_PIECES), plain_word()).prop_map(|(u, w)| format!("{u}{w}")),
        1 => proptest::collection::vec(any::<char>(), 1..6).prop_map(|v| v.into_iter().collect()),
        1 => (1usize..400).prop_map(|n| "a".repeat(n)),
        1 => (1usize..60, plain_word()).prop_map(|(n, w)| w.repeat(n)),
    ]
    .boxed()
}

pub fn word_like() -> BoxedStrategy<String> {
    prop_oneof![
        6 => plain_word(),
        3 => dict_word(),
        2 => near_word(),
        3 => sel_str(SPECIAL_WORDS),
        2 => from_vec(&harvest().words),
        1 => number_word(),
        1 => sel_str(PUNCT),
        1 => unicode_run(),
        1 => plain_word().prop_map(|w| {
            let mut c = w.chars();
            match c.next() {
                Some(f) => f.to_uppercase().collect::<String>() + c.as_str(),
                None => w,
            }
        }),
        1 => plain_word().prop_map(|w| w.to_uppercase()),
    ]
    .boxed()
}

pub fn word_sentence() -> BoxedStrategy<String> {
    (
        proptest::collection::vec((word_like(), sel_str(&[" ", " ", " ", " ", ", ", "  ", "-", "", "\n"])), 1..12),
        sel_str(TERMINATORS),
    )
        .prop_map(|(ws, t)| {
            let mut s = String::new();
            let n = ws.len();
            for (i, (w, sep)) in ws.into_iter().enumerate() {
                s.push_str(&w);
                if i + 1 < n {
                    s.push_str(&sep);
                }
            }
            s.push_str(&t);
            s
        })
        .boxed()
}

fn char_boundary_cut(s: &str, sel: u16) -> usize {
    let idxs: Vec<usize> = s.char_indices().map(|(i, _)| i).chain([s.len()]).collect();
    idxs[pick_idx(sel, idxs.len())]
}

pub fn mutated_sentence() -> BoxedStrategy<String> {
    (harvested_sentence(), 0u8..10, any::<u16>(), any::<u16>(), word_like(), harvested_sentence())
        .prop_map(|(s, op, a, b, w, other)| {
            let words: Vec<&str> = s.split(' ').collect();
            let n = words.len();
            let ia = pick_idx(a, n.max(1));
            let ib = pick_idx(b, n.max(1));
            match op {
                0 => s[..char_boundary_cut(&s, a)].to_string(), // truncate
                1 => {
                    // swap two words
                    let mut w2 = words.clone();
                    if n > 1 {
                        w2.swap(ia, ib);
                    }
                    w2.join(" ")
                }
                2 => {
                    // drop a word
                    let mut w2 = words.clone();
                    if n > 1 {
                        w2.remove(ia);
                    }
                    w2.join(" ")
                }
                3 => {
                    // duplicate a word
                    let mut w2 = words.clone();
                    w2.insert(ia, words[ia.min(n - 1)]);
                    w2.join(" ")
                }
                4 => {
                    // replace a word
                    let mut w2: Vec<String> = words.iter().map(|x| x.to_string()).collect();
                    if n > 0 {
                        w2[ia] = w.clone();
                    }
                    w2.join(" ")
                }
                5 => {
                    // case flip a word
                    let mut w2: Vec<String> = words.iter().map(|x| x.to_string()).collect();
                    if n > 0 {
                        let x = &w2[ia];
                        w2[ia] = if x.chars().any(|c| c.is_lowercase()) {
                            x.to_uppercase()
                        } else {
                            x.to_lowercase()
                        };
                    }
                    w2.join(" ")
                }
                6 => {
                    // splice two sentences
                    let cut1 = char_boundary_cut(&s, a);
                    let cut2 = char_boundary_cut(&other, b);
                    format!("{}{}", &s[..cut1], &other[cut2..])
                }
                8 | 9 => {
                    // perturb the whitespace between two words (line wraps, tabs, double spaces)
                    let ws = [" \n", "\n", "  ", "\t", " \n ", "\n ", " \t ", "\r\n", "\u{a0}", " \n\n"][b as usize % 10];
                    let mut out = String::new();
                    for (i, w) in words.iter().enumerate() {
                        if i > 0 {
                            out.push_str(if i == ia.max(1) || (op == 9 && i % 2 == 0) { ws } else { " " });
                        }
                        out.push_str(w);
                    }
                    out
                }
                _ => {
                    // suffix only
                    s[char_boundary_cut(&s, a)..].to_string()
                }
            }
        })
        .boxed()
}

/// a run-on sentence of 41-70 words, optionally unterminated
pub fn long_sentence() -> BoxedStrategy<String> {
    (proptest::collection::vec(prop_oneof![4 => plain_word(), 1 => sel_str(&["a", "I", "x", "of", "the"])], 41..70), sel_str(&["", ".", "?"]))
        .prop_map(|(ws, t)| ws.join(" ") + &t)
        .boxed()
}

pub fn sentence() -> BoxedStrategy<String> {
    prop_oneof![
        2 => long_sentence(),
        40 => harvested_sentence(),
        25 => mutated_sentence(),
        25 => word_sentence(),
        10 => (unicode_run(), word_sentence(), any::<bool>()).prop_map(|(u, s, front)| if front {
            format!("{u} {s}")
        } else {
            format!("{s} {u}")
        }),
    ]
    .boxed()
}

pub fn block() -> BoxedStrategy<String> {
    proptest::collection::vec((sentence(), sel_str(SEPS)), 1..4)
        .prop_map(|v| {
            let mut s = String::new();
            let n = v.len();
            for (i, (sent, sep)) in v.into_iter().enumerate() {
                s.push_str(&sent);
                if i + 1 < n {
                    s.push_str(&sep);
                }
            }
            s
        })
        .boxed()
}

/// G-TEXT
pub fn text() -> BoxedStrategy<String> {
    (
        proptest::collection::vec((block(), sel_str(PARBREAKS)), 1..4),
        sel_str(&["", "", "", " ", "\n", "\n\n", "\t"]),
    )
        .prop_map(|(v, tail)| {
            let mut s = String::new();
            let n = v.len();
            for (i, (b, pb)) in v.into_iter().enumerate() {
                s.push_str(&b);
                if i + 1 < n {
                    s.push_str(&pb);
                }
            }
            s.push_str(&tail);
            s
        })
        .boxed()
}

/// One paragraph, no paragraph breaks (single newlines allowed).
pub fn paragraph() -> BoxedStrategy<String> {
    block()
        .prop_map(|b| {
            // remove accidental paragraph breaks
            let mut s = b.replace("\r\n", "\n");
            while s.contains("\n\n") || s.contains("\n \n") {
                s = s.replace("\n\n", "\n").replace("\n \n", "\n");
            }
            s
        })
        .boxed()
}

// ------------------------------------------------------------------------------------------------
// text classification helpers

pub fn has_multibyte(s: &str) -> bool {
    !s.is_ascii()
}
pub fn has_astral(s: &str) -> bool {
    s.chars().any(|c| (c as u32) > 0xFFFF)
}

// ------------------------------------------------------------------------------------------------
// G-CONFIG

#[derive(Debug, Clone, Serialize, Deserialize, PartialEq)]
pub enum ConfigBase {
    Curated,
    AllOn,
    AllOff,
    /// each rule on iff bit i of the hash of (salt, key) is set
    Random(u64),
    OneOn(String),
}

#[derive(Debug, Clone, Serialize, Deserialize, PartialEq)]
pub struct ConfigSpec {
    pub base: ConfigBase,
    /// overlay: key -> Some(true)/Some(false)/None(unset)
    pub overlay: Vec<(String, Option<bool>)>,
}

impl ConfigSpec {
    pub fn curated() -> Self {
        ConfigSpec {
            base: ConfigBase::Curated,
            overlay: vec![],
        }
    }
    pub fn all_on() -> Self {
        ConfigSpec {
            base: ConfigBase::AllOn,
            overlay: vec![],
        }
    }
    pub fn only(keys: &[&str]) -> Self {
        ConfigSpec {
            base: ConfigBase::AllOff,
            overlay: keys.iter().map(|k| (k.to_string(), Some(true))).collect(),
        }
    }

    pub fn build(&self) -> LintGroupConfig {
        let keys = &harvest().rule_keys;
        let mut cfg = match &self.base {
            ConfigBase::Curated => LintGroupConfig::new_curated(),
            _ => LintGroupConfig::default(),
        };
        match &self.base {
            ConfigBase::Curated => {}
            ConfigBase::AllOn => {
                for k in keys {
                    cfg.set_rule_enabled(k, true);
                }
            }
            ConfigBase::AllOff => {
                for k in keys {
                    cfg.set_rule_enabled(k, false);
                }
            }
            ConfigBase::Random(salt) => {
                for k in keys {
                    cfg.set_rule_enabled(k, crate::core::mix(*salt, crate::core::h64(k)) & 1 == 1);
                }
            }
            ConfigBase::OneOn(key) => {
                for k in keys {
                    cfg.set_rule_enabled(k, k == key);
                }
            }
        }
        for (k, v) in &self.overlay {
            match v {
                Some(b) => cfg.set_rule_enabled(k, *b),
                None => cfg.unset_rule_enabled(k),
            }
        }
        cfg
    }
}

pub fn rule_key() -> BoxedStrategy<String> {
    from_vec(&harvest().rule_keys)
}

pub fn config_spec() -> BoxedStrategy<ConfigSpec> {
    let base = prop_oneof![
        3 => Just(ConfigBase::Curated),
        3 => Just(ConfigBase::AllOn),
        1 => Just(ConfigBase::AllOff),
        2 => any::<u64>().prop_map(ConfigBase::Random),
        1 => rule_key().prop_map(ConfigBase::OneOn),
    ];
    let key = prop_oneof![
        8 => rule_key(),
        1 => sel_str(&["NoSuchRule", "", "spellcheck", "SpellCheck ", "😀"]),
    ];
    let overlay = proptest::collection::vec(
        (key, prop_oneof![Just(Some(true)), Just(Some(false)), Just(None)]),
        0..6,
    );
    (base, overlay)
        .prop_map(|(base, overlay)| ConfigSpec { base, overlay })
        .boxed()
}

pub const DIALECTS: [Dialect; 4] = [
    Dialect::American,
    Dialect::British,
    Dialect::Australian,
    Dialect::Canadian,
];

pub fn dialect_idx() -> BoxedStrategy<u8> {
    (0u8..4).boxed()
}
