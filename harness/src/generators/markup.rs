//! G-MARKUP — Markdown / HTML / Typst / Literate Haskell / git-commit documents built around
//! G-TEXT sentences, including unterminated variants of every construct.

use proptest::prelude::*;

use super::{paragraph, sel_str, sentence, text};

/// multi-byte / odd content for the non-prose parts of markup (tags, comments, code, math, URLs)
pub fn noise() -> BoxedStrategy<String> {
    prop_oneof![
        3 => sel_str(&["é", "⌘ key", "😀", "ünï cödé", "中文", "x", "", "a\u{301}", "𝒜𝒷", "—", "naïve café", "\u{200b}", "İ"]),
        1 => super::unicode_run(),
        1 => super::plain_word(),
    ]
    .boxed()
}

fn md_inline() -> BoxedStrategy<String> {
    prop_oneof![
        6 => sentence(),
        1 => sentence().prop_map(|s| format!("*{s}*")),
        1 => sentence().prop_map(|s| format!("**{s}**")),
        1 => sentence().prop_map(|s| format!("_{s}")),
        1 => sentence().prop_map(|s| format!("~~{s}~~")),
        1 => (sentence(), sel_str(&["https://example.com", "", "<u r l>", "#frag", "a b"]), sel_str(&["", " \"a titel here\"", " 'titel", " (par)"]))
            .prop_map(|(s, u, t)| format!("[{s}]({u}{t})")),
        1 => sentence().prop_map(|s| format!("[{s}](")),
        1 => sentence().prop_map(|s| format!("[{s}][ref]")),
        1 => sentence().prop_map(|s| format!("![{s}](img.png \"an imge\")")),
        1 => sentence().prop_map(|s| format!("`{s}`")),
        1 => sentence().prop_map(|s| format!("`{s}")),
        1 => sentence().prop_map(|s| format!("${s}$")),
        1 => sentence().prop_map(|s| format!("$${s}$$")),
        1 => sentence().prop_map(|s| format!("<b>{s}</b>")),
        1 => (noise(), sentence()).prop_map(|(n, s)| format!("<kbd title=\"{n}\">{s}</kbd>")),
        1 => (noise(), sentence()).prop_map(|(n, s)| format!("<!-- {n} --> {s}")),
        1 => (noise(), sentence()).prop_map(|(n, s)| format!("`{n}` {s}")),
        1 => (noise(), sentence()).prop_map(|(n, s)| format!("${n}$ {s}")),
        1 => (noise(), sentence()).prop_map(|(n, s)| format!("[{s}](https://example.com/{n})")),
        1 => (noise(), sentence()).prop_map(|(n, s)| format!("[{s}](x \"{n}\")")),
        1 => sentence().prop_map(|s| format!("<span class=\"x\">{s}")),
        1 => sentence().prop_map(|s| format!("[[{s}]]")),
        1 => (sentence(), sentence()).prop_map(|(a, b)| format!("[[{a}|{b}]]")),
        1 => sentence().prop_map(|s| format!("[[{s}")),
        1 => sel_str(&["&amp;", "&nbsp;", "&#x1F600;", "&bogus;", "&", "\\*", "\\", "<!-- c -->", "<!--", "[^1]", "[x]", "- [ ] todo", "<https://a.b>", "<a@b.c>", ":smile:"]),
        1 => sentence().prop_map(|s| format!("{s}  \n")),
        1 => sentence().prop_map(|s| format!("{s}\\\n")),
    ]
    .boxed()
}

fn md_line() -> BoxedStrategy<String> {
    proptest::collection::vec(md_inline(), 1..4)
        .prop_map(|v| v.join(" "))
        .boxed()
}

fn md_block() -> BoxedStrategy<String> {
    prop_oneof![
        6 => md_line(),
        2 => (1usize..7, md_line()).prop_map(|(n, l)| format!("{} {l}", "#".repeat(n))),
        1 => (md_line(), sel_str(&["===", "---", "=", "-"])).prop_map(|(l, u)| format!("{l}\n{u}")),
        2 => proptest::collection::vec((sel_str(&["- ", "* ", "+ ", "1. ", "2) ", "  - ", "    * ", "\t- "]), md_line()), 1..4)
            .prop_map(|v| v.into_iter().map(|(b, l)| format!("{b}{l}")).collect::<Vec<_>>().join("\n")),
        2 => proptest::collection::vec((sel_str(&["> ", ">", "> > ", ">  - "]), md_line()), 1..3)
            .prop_map(|v| v.into_iter().map(|(b, l)| format!("{b}{l}")).collect::<Vec<_>>().join("\n")),
        1 => (sel_str(&["```", "```rust", "~~~", "````"]), text(), any::<bool>())
            .prop_map(|(f, t, close)| if close { format!("{f}\n{t}\n{}", &f[..3]) } else { format!("{f}\n{t}") }),
        1 => text().prop_map(|t| t.lines().map(|l| format!("    {l}")).collect::<Vec<_>>().join("\n")),
        1 => text().prop_map(|t| t.lines().map(|l| format!("\t{l}")).collect::<Vec<_>>().join("\n")),
        1 => (md_line(), md_line(), md_line(), md_line())
            .prop_map(|(a, b, c, d)| format!("| {a} | {b} |\n|---|:-:|\n| {c} | {d} |")),
        1 => (md_line(), md_line()).prop_map(|(a, b)| format!("| {a} | {b}\n|---|")),
        1 => sel_str(&["---", "***", "___", "<div>\n", "<div>\nx\n</div>", "[ref]: https://example.com \"Titel\"", "[^1]: A footnot.", "<details><summary>x</summary>"]),
        1 => (md_line()).prop_map(|l| format!("---\ntitle: {l}\n---")),
        1 => md_line().prop_map(|l| format!("$$\n{l}\n$$")),
        1 => (noise(), md_line()).prop_map(|(n, l)| format!("<div>\n{n}\n</div>\n\n{l}")),
        1 => (noise(), noise(), md_line()).prop_map(|(a, b, l)| format!("<!-- {a} -->\n<!-- {b} -->\n\n{l}")),
        1 => (noise(), md_line()).prop_map(|(n, l)| format!("```\n{n}\n```\n{l}")),
        1 => (noise(), md_line()).prop_map(|(n, l)| format!("    {n}\n\n{l}")),
    ]
    .boxed()
}

pub fn markdown_doc() -> BoxedStrategy<String> {
    (
        proptest::collection::vec((md_block(), sel_str(&["\n\n", "\n\n", "\n", "\n\n\n", "\r\n\r\n"])), 1..5),
        sel_str(&["", "\n", " "]),
    )
        .prop_map(|(v, tail)| {
            let mut s = String::new();
            let n = v.len();
            for (i, (b, sep)) in v.into_iter().enumerate() {
                s.push_str(&b);
                if i + 1 < n {
                    s.push_str(&sep);
                }
            }
            s + &tail
        })
        .boxed()
}

fn html_node() -> BoxedStrategy<String> {
    prop_oneof![
        5 => paragraph(),
        2 => (sel_str(&["p", "b", "div", "h1", "li", "span", "a", "td", "em", "x-y"]), paragraph())
            .prop_map(|(t, p)| format!("<{t}>{p}</{t}>")),
        1 => (sel_str(&["p", "div", "a"]), sel_str(&["class=\"wrold teh\"", "href='https://a.b/?q=1&x'", "title=\"an titel\"", "data-x=😀", "disabled"]), paragraph())
            .prop_map(|(t, a, p)| format!("<{t} {a}>{p}</{t}>")),
        1 => paragraph().prop_map(|p| format!("<p>{p}")),
        1 => paragraph().prop_map(|p| format!("<p {p}")),
        1 => paragraph().prop_map(|p| format!("<!-- {p} -->")),
        1 => (noise(), paragraph()).prop_map(|(n, p)| format!("<!-- {n} --><p title=\"{n}\">{p}</p>")),
        1 => (noise(), paragraph()).prop_map(|(n, p)| format!("<script>'{n}'</script>{p}")),
        1 => paragraph().prop_map(|p| format!("<!-- {p}")),
        1 => paragraph().prop_map(|p| format!("<script>var teh = \"{p}\";</script>")),
        1 => paragraph().prop_map(|p| format!("<style>.teh {{ color: red; }} /* {p} */</style>")),
        1 => sel_str(&["<br>", "<br/>", "<img src=\"x.png\" alt=\"an imge\">", "&amp;", "&nbsp;", "&#128512;", "&bogus", "<", ">", "</p>", "<!DOCTYPE html>", "<html><head><title>Teh titel</title></head><body>", "</body></html>", "<![CDATA[ teh ]]>", "<?php echo 1 ?>"]),
    ]
    .boxed()
}

pub fn html_doc() -> BoxedStrategy<String> {
    proptest::collection::vec((html_node(), sel_str(&["", "\n", " ", "\n\n", "\r\n"])), 1..6)
        .prop_map(|v| v.into_iter().map(|(a, b)| a + &b).collect())
        .boxed()
}

fn typst_piece() -> BoxedStrategy<String> {
    prop_oneof![
        5 => paragraph(),
        1 => (1usize..4, paragraph()).prop_map(|(n, p)| format!("{} {p}", "=".repeat(n))),
        1 => paragraph().prop_map(|p| format!("*{p}*")),
        1 => paragraph().prop_map(|p| format!("_{p}_")),
        1 => paragraph().prop_map(|p| format!("_{p}")),
        1 => paragraph().prop_map(|p| format!("- {p}")),
        1 => paragraph().prop_map(|p| format!("+ {p}")),
        1 => (paragraph(), paragraph()).prop_map(|(a, b)| format!("/ {a}: {b}")),
        1 => paragraph().prop_map(|p| format!("#let x = \"{p}\"")),
        1 => paragraph().prop_map(|p| format!("#let x = \"{p}")),
        // string literals with escapes: the literal's source text and its value differ in length
        2 => (paragraph(), paragraph(), sel_str(&["\\\"", "\\n", "\\t", "\\u{2014}", "\\\\", "\\u{1F600}", "\\r"]), sel_str(&["#let x = ", "#f(", "#text(", "#(a: ", ""]))
            .prop_map(|(a, b, esc, head)| {
                let tail = match head.as_str() { "#f(" | "#text(" | "#(a: " => ")", _ => "" };
                let hash = if head.is_empty() { "#" } else { "" };
                format!("{head}{hash}\"{a} {esc}{b}{esc} twice\"{tail}")
            }),
        1 => paragraph().prop_map(|p| format!("#text(fill: red)[{p}]")),
        1 => paragraph().prop_map(|p| format!("#text(fill: red)[{p}")),
        1 => paragraph().prop_map(|p| format!("#figure(caption: [{p}], image(\"an imge.png\"))")),
        1 => paragraph().prop_map(|p| format!("#link(\"https://a.b\")[{p}]")),
        1 => paragraph().prop_map(|p| format!("#rgb(\"{p}\")")),
        1 => (noise(), paragraph()).prop_map(|(n, p)| format!("#image(\"{n}.png\") {p}")),
        1 => (noise(), paragraph()).prop_map(|(n, p)| format!("$ {n} $ {p}")),
        1 => (noise(), paragraph()).prop_map(|(n, p)| format!("`{n}` {p}")),
        1 => (noise(), paragraph()).prop_map(|(n, p)| format!("// {n}\n{p}")),
        1 => paragraph().prop_map(|p| format!("#cite(\"{p}\", \"more {p}\")")),
        1 => paragraph().prop_map(|p| format!("#image(\"{p}\", alt: \"an imge\")")),
        1 => paragraph().prop_map(|p| format!("#raw(\"{p}\")")),
        1 => paragraph().prop_map(|p| format!("$ {p} $")),
        1 => paragraph().prop_map(|p| format!("$ {p}")),
        1 => paragraph().prop_map(|p| format!("`{p}`")),
        1 => paragraph().prop_map(|p| format!("```rust\n{p}\n```")),
        1 => paragraph().prop_map(|p| format!("// {p}")),
        1 => paragraph().prop_map(|p| format!("/* {p} */")),
        1 => paragraph().prop_map(|p| format!("/* {p}")),
        1 => paragraph().prop_map(|p| format!("#if true [{p}] else [teh {p}]")),
        1 => paragraph().prop_map(|p| format!("#for x in (1, 2) [{p}]")),
        1 => paragraph().prop_map(|p| format!("#let f(x) = [{p} #x]")),
        1 => paragraph().prop_map(|p| format!("#show heading: it => [{p}]")),
        1 => sel_str(&["#show \"the\": \"the \"", "#set text(\"the\") if \"the \"", "#show \"teh\": it => [the #it]", "#show regex(\"the\"): \"the the\"", "#set par(justify: true) if \"an apple\" == \"a apple\"", "#show: doc => [the #doc the]", "#let f(x, y: \"the\") = [the #y the]"]),
        1 => paragraph().prop_map(|p| format!("#set text(lang: \"{p}\")")),
        1 => paragraph().prop_map(|p| format!("#(a: \"{p}\", b: [{p}]).a")),
        1 => sel_str(&["#x.y", "#x.", "#x.y.z()", "#(", "#[", "#{", "#", "#x(", "#x[", "@ref", "<label>", "#import \"a.typ\": b", "#include \"teh.typ\"", "\\", "\\u{1F600}", "~", "---", "#1.5em", "#true", "#none", "#x.at(0)", "#(1 + 2)", "#{ let y = 1; y }", "#context [ teh ]", "#a.b.c[teh wrold]"]),
    ]
    .boxed()
}

pub fn typst_doc() -> BoxedStrategy<String> {
    proptest::collection::vec((typst_piece(), sel_str(&["\n", "\n\n", " ", "\n\n\n", "\r\n"])), 1..6)
        .prop_map(|v| v.into_iter().map(|(a, b)| a + &b).collect())
        .boxed()
}

pub fn lhs_doc() -> BoxedStrategy<String> {
    let seg = prop_oneof![
        4 => markdown_doc(),
        2 => proptest::collection::vec(sel_str(&["> main = putStrLn \"helo wrold\"", "> import Data.List", ">", "> ", ">x", "> -- a commnet in code", ">   where teh = 1"]), 1..4)
            .prop_map(|v| v.join("\n")),
        1 => (text(), any::<bool>()).prop_map(|(t, close)| if close { format!("\\begin{{code}}\n{t}\n\\end{{code}}") } else { format!("\\begin{{code}}\n{t}") }),
        1 => sel_str(&["\\end{code}", "\\begin{code}", "\\begin{code}\\end{code}", "< not code", "%"]),
    ];
    proptest::collection::vec((seg, sel_str(&["\n", "\n\n", "\r\n"])), 1..5)
        .prop_map(|v| v.into_iter().map(|(a, b)| a + &b).collect())
        .boxed()
}

pub fn git_commit_doc() -> BoxedStrategy<String> {
    (
        sentence(),
        proptest::option::of(markdown_doc()),
        proptest::collection::vec(sel_str(&["# Please enter the commit mesage for your changes.", "# On branch main", "#", "#\tmodified:   teh.rs", "# ------------------------ >8 ------------------------", "diff --git a/x b/x"]), 0..4),
    )
        .prop_map(|(subj, body, trailer)| {
            let mut s = subj;
            if let Some(b) = body {
                s.push_str("\n\n");
                s.push_str(&b);
            }
            if !trailer.is_empty() {
                s.push('\n');
                s.push_str(&trailer.join("\n"));
            }
            s
        })
        .boxed()
}

/// A document for language id `lang` (any string is a legal input for any front-end; this
/// generator makes the interesting constructs frequent).
pub fn doc_for(lang: &str) -> BoxedStrategy<String> {
    match lang {
        "plaintext" | "text" | "mail" => text(),
        "markdown" => prop_oneof![3 => markdown_doc(), 1 => text()].boxed(),
        "html" => prop_oneof![3 => html_doc(), 1 => text()].boxed(),
        "typst" => prop_oneof![3 => typst_doc(), 1 => text()].boxed(),
        "literate haskell" | "lhaskell" => prop_oneof![3 => lhs_doc(), 1 => text()].boxed(),
        "git-commit" | "gitcommit" => prop_oneof![3 => git_commit_doc(), 1 => text()].boxed(),
        other => prop_oneof![6 => super::program::source_file(other), 1 => text(), 1 => markdown_doc()].boxed(),
    }
}
