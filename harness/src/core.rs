//! Runner, statistics, evidence, known findings, panic capture.

use std::cell::RefCell;
use std::collections::{BTreeMap, HashSet};
use std::fmt::Debug;
use std::hash::{Hash, Hasher};
use std::panic::{self, AssertUnwindSafe};
use std::path::{Path, PathBuf};
use std::sync::atomic::{AtomicBool, AtomicUsize, Ordering};
use std::sync::{Mutex, Once};
use std::time::Instant;

use proptest::strategy::BoxedStrategy;
use proptest::test_runner::{Config, RngSeed, TestCaseError, TestError, TestRunner};
use serde::Serialize;
use serde_json::{Value, json};

pub const VERIF_DIR: &str = "/verif";

pub fn repo_dir() -> PathBuf {
    PathBuf::from(std::env::var("HV_REPO").unwrap_or_else(|_| "/repo".to_string()))
}

// ------------------------------------------------------------------------------------------------
// hashing (deterministic)

pub fn h64<T: Hash + ?Sized>(t: &T) -> u64 {
    // DefaultHasher::new() uses fixed keys -> deterministic across runs.
    let mut h = std::collections::hash_map::DefaultHasher::new();
    t.hash(&mut h);
    h.finish()
}

pub fn mix(a: u64, b: u64) -> u64 {
    let mut x = a ^ b.wrapping_mul(0x9E37_79B9_7F4A_7C15);
    x ^= x >> 30;
    x = x.wrapping_mul(0xBF58_476D_1CE4_E5B9);
    x ^= x >> 27;
    x = x.wrapping_mul(0x94D0_49BB_1331_11EB);
    x ^= x >> 31;
    x
}

// ------------------------------------------------------------------------------------------------
// panic capture

#[derive(Debug, Clone, Default)]
pub struct PanicInfo {
    pub file: String,
    pub line: u32,
    pub message: String,
}

impl PanicInfo {
    pub fn site(&self) -> String {
        // path relative to the repository so that signatures survive relocation (HV_REPO)
        let f = &self.file;
        let rel = match f.find("/harper-") {
            Some(i) => &f[i + 1..],
            None => f.as_str(),
        };
        format!("{}:{}", rel, self.line)
    }
    pub fn rel_file(&self) -> String {
        let f = &self.file;
        match f.find("/harper-") {
            Some(i) => f[i + 1..].to_string(),
            None => f.clone(),
        }
    }
}

thread_local! {
    static LAST_PANIC: RefCell<Option<PanicInfo>> = const { RefCell::new(None) };
    static QUIET: RefCell<bool> = const { RefCell::new(false) };
}

static HOOK: Once = Once::new();

pub fn install_panic_hook() {
    HOOK.call_once(|| {
        let prev = panic::take_hook();
        panic::set_hook(Box::new(move |info| {
            let (file, line) = info
                .location()
                .map(|l| (l.file().to_string(), l.line()))
                .unwrap_or_default();
            let message = if let Some(s) = info.payload().downcast_ref::<&str>() {
                s.to_string()
            } else if let Some(s) = info.payload().downcast_ref::<String>() {
                s.clone()
            } else {
                "<non-string panic payload>".to_string()
            };
            let quiet = QUIET.with(|q| *q.borrow());
            LAST_PANIC.with(|p| {
                *p.borrow_mut() = Some(PanicInfo {
                    file,
                    line,
                    message,
                })
            });
            if !quiet {
                prev(info);
            }
        }));
    });
}

/// Run `f`, turning a panic into `Err(PanicInfo)`.
pub fn catch<R>(f: impl FnOnce() -> R) -> Result<R, PanicInfo> {
    install_panic_hook();
    let was = QUIET.with(|q| std::mem::replace(&mut *q.borrow_mut(), true));
    LAST_PANIC.with(|p| *p.borrow_mut() = None);
    let r = panic::catch_unwind(AssertUnwindSafe(f));
    QUIET.with(|q| *q.borrow_mut() = was);
    match r {
        Ok(v) => Ok(v),
        Err(_) => Err(LAST_PANIC
            .with(|p| p.borrow_mut().take())
            .unwrap_or_default()),
    }
}

// ------------------------------------------------------------------------------------------------
// in-flight case recording + watchdog (child side). The supervisor (bin/hv.rs) reads the slot
// files when the child dies from a signal (stack overflow, abort) or reports a hang.

pub struct Inflight {
    pub dir: PathBuf,
    files: Vec<Mutex<std::fs::File>>,
    /// ms since process start at which the slot's current case began (0 = idle)
    started: Vec<std::sync::atomic::AtomicU64>,
    deadline_ms: Vec<std::sync::atomic::AtomicU64>,
    t0: Instant,
}

pub const MAX_SLOTS: usize = 64;
pub const DEFAULT_DEADLINE_MS: u64 = 120_000;

static INFLIGHT: std::sync::OnceLock<Option<Inflight>> = std::sync::OnceLock::new();

pub fn inflight() -> Option<&'static Inflight> {
    INFLIGHT
        .get_or_init(|| {
            let dir = PathBuf::from(std::env::var("HV_INFLIGHT_DIR").ok()?);
            std::fs::create_dir_all(&dir).ok()?;
            let mut files = vec![];
            for i in 0..MAX_SLOTS {
                files.push(Mutex::new(
                    std::fs::OpenOptions::new()
                        .create(true)
                        .write(true)
                        .truncate(true)
                        .open(dir.join(format!("slot-{i}.json")))
                        .ok()?,
                ));
            }
            let inf = Inflight {
                dir,
                files,
                started: (0..MAX_SLOTS).map(|_| Default::default()).collect(),
                deadline_ms: (0..MAX_SLOTS)
                    .map(|_| std::sync::atomic::AtomicU64::new(DEFAULT_DEADLINE_MS))
                    .collect(),
                t0: Instant::now(),
            };
            Some(inf)
        })
        .as_ref()
}

impl Inflight {
    pub fn begin(&self, slot: usize, check: &str, case: &impl Serialize, deadline_ms: u64) {
        use std::os::unix::fs::FileExt;
        let slot = slot % MAX_SLOTS;
        let mut body = serde_json::to_vec(&json!({"check": check, "case": case})).unwrap_or_default();
        body.push(b'\n');
        if let Ok(f) = self.files[slot].lock() {
            let _ = f.write_all_at(&body, 0);
        }
        // HV_DEADLINE_SCALE: the supervisor retries a run with wider deadlines after a case was
        // slow under load but fine alone
        let scale: u64 = std::env::var("HV_DEADLINE_SCALE").ok().and_then(|s| s.parse().ok()).unwrap_or(1);
        self.deadline_ms[slot].store(deadline_ms.saturating_mul(scale.max(1)), Ordering::Relaxed);
        self.started[slot].store(self.t0.elapsed().as_millis() as u64 + 1, Ordering::Release);
    }
    pub fn end(&self, slot: usize) {
        self.started[slot % MAX_SLOTS].store(0, Ordering::Release);
    }
    /// spawn the watchdog thread: exits the process with code 3 when a case exceeds its deadline
    pub fn spawn_watchdog(&'static self) {
        std::thread::spawn(move || {
            loop {
                std::thread::sleep(std::time::Duration::from_millis(250));
                let now = self.t0.elapsed().as_millis() as u64 + 1;
                for slot in 0..MAX_SLOTS {
                    let st = self.started[slot].load(Ordering::Acquire);
                    let dl = self.deadline_ms[slot].load(Ordering::Relaxed);
                    if st != 0 && now > st + dl {
                        let _ = std::fs::write(
                            self.dir.join("hang"),
                            format!("{slot} {dl}"),
                        );
                        std::process::exit(3);
                    }
                }
            }
        });
    }
}

pub fn read_slot(dir: &Path, slot: usize) -> Option<Value> {
    let s = std::fs::read(dir.join(format!("slot-{slot}.json"))).ok()?;
    let end = s.iter().position(|b| *b == b'\n')?;
    serde_json::from_slice(&s[..end]).ok()
}

// ------------------------------------------------------------------------------------------------
// known findings

#[derive(Debug, Clone)]
pub struct KnownFinding {
    pub id: String,
    pub property: String,
    pub status: String, // "open" | "fixed"
    pub what: String,
    pub signature: Value,
    pub witness: Option<Value>,
}

#[derive(Debug, Default)]
pub struct Known {
    pub entries: Vec<KnownFinding>,
}

impl Known {
    pub fn load() -> Known {
        let path = Path::new(VERIF_DIR).join("known_findings.jsonl");
        let mut entries = vec![];
        if let Ok(s) = std::fs::read_to_string(&path) {
            for line in s.lines() {
                let line = line.trim();
                if line.is_empty() || line.starts_with('#') || line.starts_with("fixed:") {
                    continue;
                }
                if let Ok(v) = serde_json::from_str::<Value>(line) {
                    entries.push(KnownFinding {
                        id: v["id"].as_str().unwrap_or("").to_string(),
                        property: v["property"].as_str().unwrap_or("").to_string(),
                        status: v["status"].as_str().unwrap_or("open").to_string(),
                        what: v["what"].as_str().unwrap_or("").to_string(),
                        signature: v["signature"].clone(),
                        witness: v.get("witness").cloned(),
                    });
                }
            }
        }
        Known { entries }
    }

    pub fn open_for<'a>(&'a self, property: &'a str) -> impl Iterator<Item = &'a KnownFinding> {
        self.entries
            .iter()
            .filter(move |e| e.property == property && e.status == "open")
    }

    pub fn get(&self, id: &str) -> Option<&KnownFinding> {
        self.entries.iter().find(|e| e.id == id && e.status == "open")
    }
}

// ------------------------------------------------------------------------------------------------
// per-case context and statistics

#[derive(Default)]
pub struct CaseCtx {
    pub classes: Vec<String>,
    pub nontrivial_key: Option<u64>,
    pub known_hits: Vec<String>,
    pub sample_note: Option<Value>,
}

impl CaseCtx {
    pub fn class(&mut self, c: impl Into<String>) {
        self.classes.push(c.into());
    }
    pub fn class_if(&mut self, cond: bool, c: &str) {
        if cond {
            self.classes.push(c.to_string());
        }
    }
    /// Mark the case as non-trivial; `key` identifies it for distinctness.
    pub fn nontrivial<K: Hash + ?Sized>(&mut self, key: &K) {
        self.nontrivial_key = Some(h64(key));
    }
    pub fn known(&mut self, id: &str) {
        self.known_hits.push(id.to_string());
    }
    /// infrastructure trouble while evaluating this case (server died, timeout): the run becomes
    /// inconclusive (exit 2); never a violation
    pub fn infra(&mut self, msg: impl std::fmt::Display) {
        self.classes.push(format!("INFRA: {msg}"));
    }
}

#[derive(Default, Debug)]
pub struct CheckStats {
    pub name: String,
    pub evaluations: u64,
    pub nontrivial: HashSet<u64>,
    pub classes: BTreeMap<String, u64>,
    pub samples: Vec<Value>,
    pub nontrivial_samples: Vec<Value>,
    pub known_hits: BTreeMap<String, u64>,
    pub exhaustive: bool,
    pub note: Option<String>,
    pub wall_s: f64,
}

impl CheckStats {
    pub fn new(name: &str) -> Self {
        CheckStats {
            name: name.to_string(),
            ..Default::default()
        }
    }
    pub fn absorb(&mut self, ctx: CaseCtx, case: impl Fn() -> Value) {
        self.evaluations += 1;
        for c in ctx.classes {
            *self.classes.entry(c).or_default() += 1;
        }
        for k in ctx.known_hits {
            *self.known_hits.entry(k).or_default() += 1;
        }
        let mut val = None;
        if let Some(k) = ctx.nontrivial_key {
            if self.nontrivial.insert(k) && self.nontrivial_samples.len() < 4 {
                let v = case();
                self.nontrivial_samples.push(v.clone());
                val = Some(v);
            }
        }
        if self.samples.len() < 2 {
            let v = match val {
                Some(v) => v,
                None => case(),
            };
            self.samples.push(v);
        }
    }
    pub fn merge(&mut self, o: CheckStats) {
        self.evaluations += o.evaluations;
        self.nontrivial.extend(o.nontrivial);
        for (k, v) in o.classes {
            *self.classes.entry(k).or_default() += v;
        }
        for (k, v) in o.known_hits {
            *self.known_hits.entry(k).or_default() += v;
        }
        for s in o.samples {
            if self.samples.len() < 3 {
                self.samples.push(s);
            }
        }
        for s in o.nontrivial_samples {
            if self.nontrivial_samples.len() < 6 {
                self.nontrivial_samples.push(s);
            }
        }
        self.exhaustive |= o.exhaustive;
        self.wall_s += o.wall_s;
    }
    pub fn class_count(&self, c: &str) -> u64 {
        self.classes.get(c).copied().unwrap_or(0)
    }
    pub fn to_json(&self) -> Value {
        json!({
            "evaluations": self.evaluations,
            "distinct_nontrivial": self.nontrivial.len(),
            "classes": self.classes,
            "known_hits": self.known_hits,
            "exhaustive": self.exhaustive,
            "note": self.note,
            "wall_s": (self.wall_s * 10.0).round() / 10.0,
        })
    }
}

#[derive(Debug, Clone)]
pub struct Failure {
    pub check: String,
    pub case: Value,
    pub message: String,
}

// ------------------------------------------------------------------------------------------------
// a property run

#[derive(Clone, Copy, PartialEq, Eq, Debug)]
pub enum Tier {
    Quick,
    Thorough,
}

impl Tier {
    pub fn name(self) -> &'static str {
        match self {
            Tier::Quick => "quick",
            Tier::Thorough => "thorough",
        }
    }
    /// pick by tier
    pub fn pick<T>(self, quick: T, thorough: T) -> T {
        match self {
            Tier::Quick => quick,
            Tier::Thorough => thorough,
        }
    }
}

pub struct Run {
    pub property: String,
    pub tier: Tier,
    pub seed: u64,
    pub strict: bool, // replay mode: known findings are not tolerated
    pub known: Known,
    pub started: Instant,
    pub stats: Vec<CheckStats>,
    pub failures: Vec<Failure>,
    pub known_reproduced: BTreeMap<String, String>,
    pub health_problems: Vec<String>,
    pub infra_problems: Vec<String>,
    /// infrastructure incidents below the tolerance (reported, do not change the verdict)
    pub infra_notes: Vec<String>,
    pub assumptions: Vec<String>,
    pub rule: String,
    pub level: String,
    pub extra: serde_json::Map<String, Value>,
    pub threads: usize,
    /// record every in-flight case for the supervisor (abort / hang attribution)
    pub guard: bool,
    pub deadline_ms: u64,
    /// stack size of the threads cases run on
    pub stack: usize,
    pub max_shrink_iters: u32,
}

impl Run {
    pub fn new(property: &str, tier: Tier, seed: u64) -> Run {
        install_panic_hook();
        Run {
            property: property.to_string(),
            tier,
            seed,
            strict: false,
            known: Known::load(),
            started: Instant::now(),
            stats: vec![],
            failures: vec![],
            known_reproduced: BTreeMap::new(),
            health_problems: vec![],
            infra_problems: vec![],
            infra_notes: vec![],
            assumptions: vec![],
            rule: String::new(),
            level: "exploration".to_string(),
            extra: serde_json::Map::new(),
            threads: std::env::var("HV_THREADS")
                .ok()
                .and_then(|s| s.parse().ok())
                .unwrap_or(16),
            guard: false,
            deadline_ms: std::env::var("HV_DEADLINE_MS").ok().and_then(|s| s.parse().ok()).unwrap_or(DEFAULT_DEADLINE_MS),
            stack: 8 << 20,
            max_shrink_iters: 1500,
        }
    }

    pub fn n(&self, quick: u32, thorough: u32) -> u32 {
        let base = self.tier.pick(quick, thorough);
        // HV_SCALE lets sensitivity experiments shrink/grow budgets without editing code
        match std::env::var("HV_SCALE").ok().and_then(|s| s.parse::<f64>().ok()) {
            Some(f) => ((base as f64) * f).max(1.0) as u32,
            None => base,
        }
    }

    pub fn is_known_open(&self, id: &str) -> bool {
        !self.strict && self.known.get(id).is_some()
    }

    /// Record a failure (a violation that is not a known finding).
    pub fn fail(&mut self, check: &str, case: Value, message: String) {
        self.failures.push(Failure {
            check: check.to_string(),
            case,
            message,
        });
    }

    pub fn note_known(&mut self, id: &str) {
        if let Some(k) = self.known.get(id) {
            self.known_reproduced
                .insert(id.to_string(), k.what.clone());
        }
    }

    pub fn add_stats(&mut self, st: CheckStats) {
        for (k, n) in st.classes.iter().filter(|(k, _)| k.starts_with("INFRA")) {
            // a case lost to the machine (a server start or answer that timed out under load) is
            // not evidence about the property either way; a few of them are reported, many make
            // the run inconclusive
            let tolerated = (st.evaluations / 20).max(1);
            if *n <= tolerated {
                self.infra_notes.push(format!("check {}: {k} ({n}x, cases skipped)", st.name));
            } else {
                self.infra_problems
                    .push(format!("check {}: {k} ({n}x)", st.name));
            }
        }
        let hits: Vec<String> = st.known_hits.keys().cloned().collect();
        for k in hits {
            self.note_known(&k);
        }
        if let Some(e) = self.stats.iter_mut().find(|s| s.name == st.name) {
            e.merge(st);
        } else {
            self.stats.push(st);
        }
    }

    /// Require that a class was reached at least `min` times in check `name`; otherwise
    /// the generator is unhealthy (exit 2), not a pass.
    pub fn require_class(&mut self, name: &str, class: &str, min: u64) {
        if self.strict {
            return;
        }
        let Some(st) = self.stats.iter().find(|s| s.name == name) else {
            self.health_problems
                .push(format!("check {name} did not run"));
            return;
        };
        let got = st.class_count(class);
        if got < min.saturating_mul(2) && std::env::var("HV_REPORT_MARGINS").is_ok() {
            eprintln!("MARGIN {} {name}: class '{class}' reached {got}, required {min}", self.property);
        }
        if got < min {
            self.health_problems.push(format!(
                "generator health: check {name}: class '{class}' reached {got} < {min} times"
            ));
        }
    }

    /// Generated-input search with proptest. `mk` builds the strategy (per shard thread),
    /// `test` is the oracle. Returns true if the check held.
    pub fn prop<T, MK, F>(&mut self, name: &str, cases: u32, mk: MK, test: F) -> bool
    where
        T: Debug + Clone + Serialize + Send + 'static,
        MK: Fn() -> BoxedStrategy<T> + Sync,
        F: Fn(&T, &mut CaseCtx) -> Result<(), String> + Sync,
    {
        self.prop_opts(name, cases, self.stack, mk, test)
    }

    pub fn prop_opts<T, MK, F>(
        &mut self,
        name: &str,
        cases: u32,
        stack: usize,
        mk: MK,
        test: F,
    ) -> bool
    where
        T: Debug + Clone + Serialize + Send + 'static,
        MK: Fn() -> BoxedStrategy<T> + Sync,
        F: Fn(&T, &mut CaseCtx) -> Result<(), String> + Sync,
    {
        let t_start = Instant::now();
        let shards = self.threads.max(1).min(cases.max(1) as usize);
        let per = (cases as usize).div_ceil(shards) as u32;
        let min_failed = AtomicUsize::new(usize::MAX);
        let results: Mutex<Vec<(usize, CheckStats, Option<(T, String)>)>> = Mutex::new(vec![]);
        let base_seed = mix(mix(self.seed, h64(name)), h64(&self.property));
        let strict = self.strict;
        let guard = if self.guard { inflight() } else { None };
        let deadline_ms = self.deadline_ms;
        let max_shrink_iters = self.max_shrink_iters;
        let open_ids: HashSet<String> = self
            .known
            .entries
            .iter()
            .filter(|e| e.status == "open")
            .map(|e| e.id.clone())
            .collect();
        let open_ids = &open_ids;

        std::thread::scope(|scope| {
            for shard in 0..shards {
                let mk = &mk;
                let test = &test;
                let min_failed = &min_failed;
                let results = &results;
                let name = name.to_string();
                std::thread::Builder::new()
                    .stack_size(stack.max(1 << 20) + (256 << 10))
                    .spawn_scoped(scope, move || {
                        let mut stats = CheckStats::new(&name);
                        let failed = AtomicBool::new(false);
                        let mut runner = TestRunner::new(Config {
                            cases: per,
                            rng_seed: RngSeed::Fixed(mix(base_seed, shard as u64)),
                            failure_persistence: None,
                            max_shrink_iters,
                            max_global_rejects: 1 << 20,
                            max_local_rejects: 1 << 20,
                            verbose: 0,
                            ..Config::default()
                        });
                        let strategy = mk();
                        let stats_cell = RefCell::new(&mut stats);
                        let res = runner.run(&strategy, |v: T| {
                            // a lower shard already failed: nothing this shard finds can be
                            // the reported failure; stop early.
                            if min_failed.load(Ordering::Relaxed) < shard {
                                return Ok(());
                            }
                            let mut ctx = CaseCtx::default();
                            if let Some(g) = guard {
                                g.begin(shard, &name, &v, deadline_ms);
                            }
                            let r = match catch(|| test(&v, &mut ctx)) {
                                Ok(r) => r,
                                Err(p) => Err(format!(
                                    "panic at {}: {}",
                                    p.site(),
                                    truncate(&p.message, 300)
                                )),
                            };
                            if let Some(g) = guard {
                                g.end(shard);
                            }
                            let r = if strict && !ctx.known_hits.is_empty() {
                                Err(format!(
                                    "strict mode: reproduces known finding {:?}",
                                    ctx.known_hits
                                ))
                            } else if let Some(k) =
                                ctx.known_hits.iter().find(|k| !open_ids.contains(*k))
                            {
                                Err(format!(
                                    "violation of the kind {k}, which is not listed as an open known finding"
                                ))
                            } else {
                                r
                            };
                            match r {
                                Ok(()) => {
                                    if !failed.load(Ordering::Relaxed) {
                                        stats_cell.borrow_mut().absorb(ctx, || {
                                            serde_json::to_value(&v).unwrap_or(Value::Null)
                                        });
                                    }
                                    Ok(())
                                }
                                Err(m) => {
                                    failed.store(true, Ordering::Relaxed);
                                    min_failed.fetch_min(shard, Ordering::Relaxed);
                                    Err(TestCaseError::fail(m))
                                }
                            }
                        });
                        drop(stats_cell);
                        let fail = match res {
                            Ok(()) => None,
                            Err(TestError::Fail(reason, value)) => {
                                Some((value, reason.message().to_string()))
                            }
                            Err(TestError::Abort(reason)) => {
                                // generator rejected too much: a health problem, recorded as a
                                // class so the caller can see it
                                stats
                                    .classes
                                    .insert(format!("ABORT:{}", reason.message()), 1);
                                None
                            }
                        };
                        results.lock().unwrap().push((shard, stats, fail));
                    })
                    .expect("spawn shard");
            }
        });

        let mut results = results.into_inner().unwrap();
        results.sort_by_key(|r| r.0);
        let mut total = CheckStats::new(name);
        let mut first_fail: Option<(T, String)> = None;
        for (_, st, f) in results {
            total.merge(st);
            if first_fail.is_none() {
                first_fail = f;
            }
        }
        let aborts: Vec<String> = total
            .classes
            .keys()
            .filter(|k| k.starts_with("ABORT:"))
            .cloned()
            .collect();
        for a in aborts {
            self.health_problems
                .push(format!("check {name}: proptest aborted: {a}"));
        }
        total.wall_s = t_start.elapsed().as_secs_f64();
        self.add_stats(total);
        match first_fail {
            None => true,
            Some((v, msg)) => {
                self.fail(name, serde_json::to_value(&v).unwrap_or(Value::Null), msg);
                false
            }
        }
    }

    /// Exhaustive / enumerated search: `items` is split over the shard threads.
    /// The first failing item (lowest index) is reported.
    pub fn enumerate<T, F>(&mut self, name: &str, items: &[T], exhaustive: bool, test: F) -> bool
    where
        T: Debug + Clone + Serialize + Sync,
        F: Fn(&T, &mut CaseCtx) -> Result<(), String> + Sync,
    {
        let t_start = Instant::now();
        let shards = self.threads.max(1);
        let chunk = items.len().div_ceil(shards).max(1);
        let results: Mutex<Vec<(usize, CheckStats, Option<(usize, String)>)>> =
            Mutex::new(vec![]);
        let strict = self.strict;
        let guard = if self.guard { inflight() } else { None };
        let deadline_ms = self.deadline_ms;
        let open_ids: HashSet<String> = self
            .known
            .entries
            .iter()
            .filter(|e| e.status == "open")
            .map(|e| e.id.clone())
            .collect();
        let open_ids = &open_ids;
        let stack = self.stack;
        std::thread::scope(|scope| {
            for (shard, part) in items.chunks(chunk).enumerate() {
                let test = &test;
                let results = &results;
                let name = name.to_string();
                std::thread::Builder::new()
                    .stack_size(stack.max(1 << 20) + (256 << 10))
                    .spawn_scoped(scope, move || {
                        let mut stats = CheckStats::new(&name);
                        let mut fail = None;
                        for (i, item) in part.iter().enumerate() {
                            let mut ctx = CaseCtx::default();
                            if let Some(g) = guard {
                                g.begin(shard, &name, item, deadline_ms);
                            }
                            let r = match catch(|| test(item, &mut ctx)) {
                                Ok(r) => r,
                                Err(p) => Err(format!(
                                    "panic at {}: {}",
                                    p.site(),
                                    truncate(&p.message, 300)
                                )),
                            };
                            if let Some(g) = guard {
                                g.end(shard);
                            }
                            let r = if strict && !ctx.known_hits.is_empty() {
                                Err(format!(
                                    "strict mode: reproduces known finding {:?}",
                                    ctx.known_hits
                                ))
                            } else if let Some(k) =
                                ctx.known_hits.iter().find(|k| !open_ids.contains(*k))
                            {
                                Err(format!(
                                    "violation of the kind {k}, which is not listed as an open known finding"
                                ))
                            } else {
                                r
                            };
                            match r {
                                Ok(()) => stats.absorb(ctx, || {
                                    serde_json::to_value(item).unwrap_or(Value::Null)
                                }),
                                Err(m) => {
                                    fail = Some((shard * chunk + i, m));
                                    break;
                                }
                            }
                        }
                        results.lock().unwrap().push((shard, stats, fail));
                    })
                    .expect("spawn");
            }
        });
        let mut results = results.into_inner().unwrap();
        results.sort_by_key(|r| r.0);
        let mut total = CheckStats::new(name);
        let mut first: Option<(usize, String)> = None;
        for (_, st, f) in results {
            total.merge(st);
            if first.is_none() {
                first = f;
            }
        }
        total.exhaustive = exhaustive && first.is_none();
        total.wall_s = t_start.elapsed().as_secs_f64();
        self.add_stats(total);
        match first {
            None => true,
            Some((i, m)) => {
                self.fail(
                    name,
                    serde_json::to_value(&items[i]).unwrap_or(Value::Null),
                    m,
                );
                false
            }
        }
    }

    /// Evaluate one explicit case (corpus replay / witness).
    pub fn single<T, F>(&mut self, name: &str, item: &T, test: F) -> Result<(), String>
    where
        T: Debug + Serialize,
        F: FnOnce(&T, &mut CaseCtx) -> Result<(), String>,
    {
        let mut ctx = CaseCtx::default();
        let r = match catch(|| test(item, &mut ctx)) {
            Ok(r) => r,
            Err(p) => Err(format!(
                "panic at {}: {}",
                p.site(),
                truncate(&p.message, 300)
            )),
        };
        let r = if self.strict && !ctx.known_hits.is_empty() {
            Err(format!(
                "strict mode: reproduces known finding {:?}",
                ctx.known_hits
            ))
        } else if let Some(k) = ctx
            .known_hits
            .iter()
            .find(|k| self.known.get(k).is_none())
        {
            Err(format!(
                "violation of the kind {k}, which is not listed as an open known finding"
            ))
        } else {
            r
        };
        let mut st = CheckStats::new(name);
        if r.is_ok() {
            st.absorb(ctx, || serde_json::to_value(item).unwrap_or(Value::Null));
        }
        self.add_stats(st);
        r
    }

    // --------------------------------------------------------------------------------------------
    // finishing: evidence, replay files, exit code

    /// libFuzzer campaign summary written by the check script (thorough tier)
    fn absorb_fuzz_summary(&mut self) {
        let Ok(path) = std::env::var("HV_FUZZ_SUMMARY") else { return };
        let Ok(text) = std::fs::read_to_string(&path) else { return };
        let Ok(v) = serde_json::from_str::<Value>(&text) else { return };
        for camp in v.as_array().cloned().unwrap_or_default() {
            let target = camp["target"].as_str().unwrap_or("").to_string();
            let mut st = CheckStats::new(&format!("fuzz_{target}"));
            st.evaluations = camp["executions"].as_u64().unwrap_or(0);
            // non-trivial for a coverage-guided campaign: inputs that reached new coverage (corpus size)
            for i in 0..camp["corpus_units"].as_u64().unwrap_or(0) {
                st.nontrivial.insert(mix(h64(&target), i));
            }
            st.note = Some(format!("libFuzzer: cov={} ft={} seconds={}", camp["cov"], camp["ft"], camp["seconds"]));
            st.samples.push(camp.clone());
            self.add_stats(st);
            if let Some(art) = camp["crash_artifact"].as_str() {
                let bytes = std::fs::read(art).unwrap_or_default();
                let hex: String = bytes.iter().map(|b| format!("{b:02x}")).collect();
                match crate::fuzzing::replay(&target, &bytes) {
                    Err(m) => self.fail(&format!("fuzz_{target}"), json!({"target": target, "bytes_hex": hex, "lossy_text": String::from_utf8_lossy(&bytes).chars().take(400).collect::<String>()}), format!("libFuzzer input violates the property: {m}")),
                    Ok(()) => self.health_problems.push(format!("libFuzzer reported a crash for {target} that does not reproduce in-process ({art}); timeout/OOM are inconclusive, not violations")),
                }
            }
        }
    }

    pub fn finish(mut self) -> i32 {
        self.absorb_fuzz_summary();
        let wall = self.started.elapsed().as_secs_f64();
        let evaluations: u64 = self.stats.iter().map(|s| s.evaluations).sum();
        let distinct: usize = self.stats.iter().map(|s| s.nontrivial.len()).sum();
        let mut samples: Vec<Value> = vec![];
        for s in &self.stats {
            for v in s.nontrivial_samples.iter().take(2) {
                samples.push(json!({"check": s.name, "nontrivial": true, "case": clip(v)}));
            }
            if s.nontrivial_samples.is_empty() {
                for v in s.samples.iter().take(1) {
                    samples.push(json!({"check": s.name, "nontrivial": false, "case": clip(v)}));
                }
            }
        }
        if samples.is_empty() {
            samples.push(json!({"note": "no case completed"}));
        }
        let checks: serde_json::Map<String, Value> = self
            .stats
            .iter()
            .map(|s| (s.name.clone(), s.to_json()))
            .collect();

        // replay files
        let mut replay_paths = vec![];
        let _ = std::fs::create_dir_all(Path::new(VERIF_DIR).join("replays"));
        for f in &self.failures {
            let body = json!({
                "property": self.property,
                "check": f.check,
                "case": f.case,
                "observed": f.message,
                "seed": self.seed,
                "tier": self.tier.name(),
            });
            let text = serde_json::to_string_pretty(&body).unwrap();
            let path = Path::new(VERIF_DIR).join("replays").join(format!(
                "{}-{}-{:016x}.json",
                self.property,
                f.check.replace(['/', ' '], "_"),
                h64(&serde_json::to_string(&f.case).unwrap_or_default())
            ));
            let _ = std::fs::write(&path, text);
            replay_paths.push(path);
        }

        let exhaustive_all = !self.stats.is_empty() && self.stats.iter().all(|s| s.exhaustive);
        let mut coverage = serde_json::Map::new();
        coverage.insert("evaluations".into(), json!(evaluations));
        coverage.insert("distinct_nontrivial".into(), json!(distinct));
        coverage.insert("rule".into(), json!(self.rule));
        coverage.insert("samples".into(), Value::Array(samples));
        coverage.insert("exhaustive".into(), json!(exhaustive_all));
        coverage.insert("checks".into(), Value::Object(checks));
        coverage.insert(
            "known_findings_reproduced".into(),
            json!(self.known_reproduced.keys().collect::<Vec<_>>()),
        );
        coverage.insert("generator_health_problems".into(), json!(self.health_problems));
        coverage.insert("infrastructure_problems".into(), json!(self.infra_problems));
        coverage.insert("infrastructure_incidents_tolerated".into(), json!(self.infra_notes));
        for (k, v) in std::mem::take(&mut self.extra) {
            coverage.insert(k, v);
        }
        let ev = json!({
            "property_id": self.property,
            "tier": self.tier.name(),
            "seed": self.seed,
            "level": self.level,
            "coverage": coverage,
            "assumptions": self.assumptions,
            "wall_s": wall,
            "violations": self.failures.len(),
        });
        if !self.strict && std::env::var("HV_NO_EVIDENCE").is_err() {
            let dir = Path::new(VERIF_DIR).join("evidence");
            let _ = std::fs::create_dir_all(&dir);
            let path = dir.join(format!("{}.json", self.property));
            let tmp = dir.join(format!("{}.json.tmp", self.property));
            if std::fs::write(&tmp, serde_json::to_string_pretty(&ev).unwrap()).is_ok() {
                let _ = std::fs::rename(&tmp, &path);
            }
        }

        for (id, what) in &self.known_reproduced {
            println!("KNOWN-FINDING: property={} {} {}", self.property, id, what);
        }
        for s in &self.stats {
            println!(
                "  [{}] {}: evaluations={} distinct_nontrivial={} wall_s={:.1}{}",
                self.property,
                s.name,
                s.evaluations,
                s.nontrivial.len(),
                s.wall_s,
                if s.exhaustive { " (exhaustive)" } else { "" }
            );
        }
        if !self.failures.is_empty() {
            for (f, p) in self.failures.iter().zip(&replay_paths) {
                println!(
                    "  failure in {}: {}\n  case: {}",
                    f.check,
                    truncate(&f.message, 600),
                    truncate(&f.case.to_string(), 600)
                );
                println!(
                    "VIOLATION property={} replay={}",
                    self.property,
                    p.display()
                );
            }
            return 1;
        }
        for n in &self.infra_notes {
            println!("  note: {n}");
        }
        if !self.infra_problems.is_empty() || !self.health_problems.is_empty() {
            for p in self.infra_problems.iter().chain(&self.health_problems) {
                println!("INCONCLUSIVE property={} {}", self.property, p);
            }
            return 2;
        }
        println!(
            "OK property={} tier={} seed={} evaluations={} distinct_nontrivial={} wall_s={:.1}",
            self.property,
            self.tier.name(),
            self.seed,
            evaluations,
            distinct,
            wall
        );
        0
    }
}

pub fn truncate(s: &str, n: usize) -> String {
    if s.chars().count() <= n {
        s.to_string()
    } else {
        let t: String = s.chars().take(n).collect();
        format!("{t}…[{} chars]", s.chars().count())
    }
}

/// Clip big strings inside a JSON sample so evidence files stay readable.
pub fn clip(v: &Value) -> Value {
    match v {
        Value::String(s) => Value::String(truncate(s, 240)),
        Value::Array(a) => {
            let mut out: Vec<Value> = a.iter().take(24).map(clip).collect();
            if a.len() > 24 {
                out.push(json!(format!("…[{} items]", a.len())));
            }
            Value::Array(out)
        }
        Value::Object(o) => Value::Object(o.iter().map(|(k, v)| (k.clone(), clip(v))).collect()),
        other => other.clone(),
    }
}

/// monotone index mapping for proptest-generated selectors (shrinks towards 0)
pub fn pick_idx(sel: u16, len: usize) -> usize {
    if len == 0 {
        0
    } else {
        ((sel as usize) * len) >> 16
    }
}

// ------------------------------------------------------------------------------------------------
// isolated execution of one case in a fresh process (aborts, hangs)

/// Wait for a child with a wall-clock limit. Returns None on timeout (child killed).
pub fn wait_limit(
    child: &mut std::process::Child,
    limit: std::time::Duration,
) -> Option<std::process::ExitStatus> {
    let t0 = Instant::now();
    loop {
        match child.try_wait() {
            Ok(Some(st)) => return Some(st),
            Ok(None) => {
                if t0.elapsed() > limit {
                    let _ = child.kill();
                    let _ = child.wait();
                    return None;
                }
                std::thread::sleep(std::time::Duration::from_millis(20));
            }
            Err(_) => return None,
        }
    }
}

/// Re-run one case alone in a fresh process. Returns a description of how it ended.
pub enum Confirm {
    Passed,
    Violation(String),
    Signal(i32),
    Timeout,
}

pub fn confirm_case(property: &str, check: &str, case: &Value, limit: std::time::Duration) -> Confirm {
    use std::os::unix::process::ExitStatusExt;
    let dir = Path::new(VERIF_DIR).join("work");
    let _ = std::fs::create_dir_all(&dir);
    let file = dir.join(format!("confirm-{}-{}.json", std::process::id(), h64(&case.to_string())));
    let body = json!({"property": property, "check": check, "case": case});
    if std::fs::write(&file, body.to_string()).is_err() {
        return Confirm::Passed;
    }
    let mut child = match std::process::Command::new(std::env::current_exe().expect("current_exe"))
        .arg("replay-child")
        .arg(&file)
        .env("HV_CHILD", "1")
        .stdout(std::process::Stdio::piped())
        .stderr(std::process::Stdio::null())
        .spawn()
    {
        Ok(c) => c,
        Err(_) => return Confirm::Passed,
    };
    let st = wait_limit(&mut child, limit);
    let mut out = String::new();
    if let Some(mut o) = child.stdout.take() {
        use std::io::Read;
        let _ = o.read_to_string(&mut out);
    }
    let _ = std::fs::remove_file(&file);
    match st {
        None => Confirm::Timeout,
        Some(st) => {
            if let Some(sig) = st.signal() {
                Confirm::Signal(sig)
            } else if st.code() == Some(0) {
                Confirm::Passed
            } else {
                Confirm::Violation(out)
            }
        }
    }
}

