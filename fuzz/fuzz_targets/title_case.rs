#![no_main]
use libfuzzer_sys::fuzz_target;

fuzz_target!(|data: &[u8]| {
    hv::fuzzing::title_case(data);
});
